HOOK_COMMITS = ["8a3a695"]
NOTES = "Runtime monitoring of gdsl: see DESIGN.md. Exit codes: 0 held, 1 VIOLATION, 2 INCONCLUSIVE. Known findings: known_findings.json (read-only at run time)."
NOT_APPLICABLE = {}

SEQ_NOTE = "Trusted base: the harness' observation function and oracles (harness/gv/src/core.rs), rustc, the hash containers of ahash. Holds only for the histories executed: exhaustive inside the stated bound, sampled beyond."
META = {
    "C01": {
        "level_text": "Exploration by runtime monitoring: every (abstract state, operation) pair of 3 nodes / <=3 (quick) or <=4 (thorough) live edges is executed against the real directed node types (plain and sync) and the mirror-invariant walker checks the implementation's own account of the graph (iter_out/iter_in, degrees, predicates, lookups) after every operation; random 300-op histories on up to 8 nodes extend it. Exhaustive inside the bound, sampled beyond; not a proof for unbounded histories.",
        "design_ref": "DESIGN.md §5 C01, §3.3-3.5",
        "level_note": SEQ_NOTE,
        "technique": "runtime invariant monitor (mirror walker over public-API observations) on exhaustively enumerated small histories + seeded random histories",
    },
    "C02": {
        "level_text": "Exploration by runtime monitoring: as C01 for the undirected node types; the symmetry walker compares both endpoints' iter() multisets, self-loop multiplicity, degree, is_connected, find_adjacent and is_orphan after every operation of every enumerated and random history.",
        "design_ref": "DESIGN.md §5 C02",
        "level_note": SEQ_NOTE,
        "technique": "runtime invariant monitor (symmetry walker) on exhaustively enumerated small histories + seeded random histories",
    },
    "C03": {
        "level_text": "Exploration by runtime monitoring: a step relation over consecutive observations (the multigraph contract of connect / try_connect / disconnect / isolate, relational where the implementation has a choice) is evaluated on every (abstract state, operation) pair in the bound, for all four flavours, with operands obtained through seven handle provenances; panics are caught, re-entrant lock acquisitions of the sync flavours are reported by the lock hook instead of hanging.",
        "design_ref": "DESIGN.md §5 C03, §3.6",
        "level_note": SEQ_NOTE,
        "technique": "reference-relation monitor over (pre-observation, op, result, post-observation) + lock-hook re-entrancy monitor, exhaustive small state space + random histories",
    },
}

SEARCH_NOTE = "Trusted base: the reference model (harness/gv/src/model.rs: BFS distances, reachability, shortest cycle, Tarjan, exact DFS pre/post-order deciders), the observation function, rustc. Exhaustive inside the stated graph bounds (all multigraphs as insertion sequences), sampled beyond; says nothing about graphs no workload builds."
def _s(pid, text, ref, tech):
    META[pid] = {"level_text": text, "design_ref": ref, "level_note": SEARCH_NOTE, "technique": tech}

_s("C04", "Exploration by runtime monitoring: bfs target searches of the real code are executed on every multigraph in the bound (3 nodes/<=4 edges quick; 3/<=5 and 4/<=4 thorough) x every root/target x every reject subset and judged against model BFS distances computed on the implementation's own observation of the graph; random graphs to 40 nodes beyond.", "DESIGN.md §5 C04", "reference-model monitor (model BFS on observed graph) over exhaustively enumerated small multigraphs + seeded random graphs")
_s("C05", "Exploration by runtime monitoring: as C04 for dfs, with simple-path validity instead of minimality.", "DESIGN.md §5 C05", "reference-model monitor (reachability + path validity) over enumerated + random graphs")
_s("C06", "Exploration by runtime monitoring: the for_each/filter call log of every pfs run is checked online against the expansion-order rule, target searches against model reachability, and the node comparison operators against value comparison on a (key,value) grid; all value assignments from {0,1,2}^n on small graphs.", "DESIGN.md §5 C06", "trace monitor over the closure call log + reference-model monitor + comparison table")
_s("C07", "Exploration by runtime monitoring: per-edge call counters of for_each versus model reachability for all traversal kinds, and rejected-set intersection on every kind of result for filtered searches.", "DESIGN.md §5 C07", "event-count monitor (exactly-once per reachable edge) + exclusion monitor on results")
_s("C08", "Exploration by differential runtime monitoring: two live instances, G and its list-wise reverse, are searched with transposed resp. plain configurations and must agree exactly in result and closure-call sequence; orientation of every reported edge is checked against the stored edges.", "DESIGN.md §5 C08", "differential monitor on two live instances (transposed on G vs plain on reversed G) + orientation check")
_s("C09", "Exploration by runtime monitoring: search_cycle results of bfs/dfs/pfs on all four flavours against the model's shortest closed walk through the root in the accepted (half-)edge graph, with simplicity and minimality checks on directed results.", "DESIGN.md §5 C09", "reference-model monitor (shortest cycle through root) + cycle validity checks")
_s("C10", "Exploration by runtime monitoring: orderings are decided by exact 'some DFS produces this' procedures (preorder: linear stack simulation; postorder: back-tracking with budget, necessary conditions beyond and counted separately) on the observed graph.", "DESIGN.md §5 C10", "exact DFS-order decision procedures as runtime oracles over enumerated + random graphs")
_s("C11", "Exploration by runtime monitoring: scc() of the real containers against Tarjan on the observed graph for every digraph on <=3 (quick) / <=4 (thorough) nodes, several container instances (hash orders) and insertion orders each, plus non-simple-component family and random graphs.", "DESIGN.md §5 C11", "reference-model monitor (Tarjan partition) across container instances / iteration orders")

GEN_NOTE = "Trusted base: the harness oracle for this property (named in technique), the observation function, rustc, serde_json/serde_cbor where used. Holds for the executions performed: exhaustive inside the stated bounds, sampled beyond."
def _g(pid, text, ref, tech):
    META[pid] = {"level_text": text, "design_ref": ref, "level_note": GEN_NOTE, "technique": tech}

_g("C12", "Exploration by runtime monitoring: real serde_json and serde_cbor round trips of all four containers on every multigraph in the bound and random graphs, several container instances (hash orders) each; the result is compared with the original through the observation function and must be a fixed point of a second trip; String-keyed instantiations with hostile key strings in addition.", "DESIGN.md §5 C12", "round-trip monitor: observation of de(ser(G)) vs observation of G, fixed-point check, across container instances")
_g("C13", "Exploration by runtime monitoring with fault injection into documents: enumerated structural mutations at every position of valid documents, truncation at every byte, random byte/token mutations and synthetic documents are fed to the real deserialisers; panics are caught, hangs decided on CPU time, accepted graphs are walked for the invariants and compared with what a lenient parse of the same bytes declares.", "DESIGN.md §5 C13", "hostile-input monitor: panic/hang detection + invariant walker + declared-content oracle over mutated documents")
_g("C15", "Exploration by differential runtime monitoring: generated programs over the common API are executed on the plain and the sync flavour side by side and their transcripts compared call by call.", "DESIGN.md §5 C15", "differential transcript monitor (plain vs sync flavour) over generated programs + enumerated (state, op) pairs")
_g("C18", "Exploration by runtime monitoring: container histories (enumerated to a depth, random beyond) are compared call by call with a key->node-object map model; roots/leaves/orphans with the members' own predicates; DOT text is parsed and compared with members, iterated edges and callback attributes.", "DESIGN.md §5 C18", "reference-model monitor (map model, identity by payload instance) + DOT text checker")
_g("C19", "Exploration by runtime monitoring with three independent oracles: drop-counting payloads checked after every single drop of every handle in enumerated/random drop orders, valgrind memcheck leak check and Miri's leak/UB report on the same sub-command.", "DESIGN.md §5 C19", "drop-counter monitor (exactly-once release, no release while mentioned) + valgrind memcheck leak check + Miri")
_g("C20", "Exploration by runtime monitoring: every single-operation script fired at every step of every kind of edge loop and traversal closure on small graphs (random multi-op scripts beyond), with a model kept current by the harness so that every yielded edge is checked for existence at the moment of the yield; panics and re-entrant locks (hook) are caught, termination is a logical step bound.", "DESIGN.md §5 C20", "online trace monitor at every yield/closure call against a harness-maintained model + lock-hook re-entrancy monitor + logical step bound")
