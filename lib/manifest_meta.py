HOOK_COMMITS = ["8a3a695"]
NOTES = "Runtime monitoring of gdsl: see DESIGN.md. Exit codes: 0 held, 1 VIOLATION, 2 INCONCLUSIVE. Known findings: known_findings.json (read-only at run time)."
NOT_APPLICABLE = {}

SEQ_NOTE = "Trusted base: the harness' observation function and oracles (harness/gv/src/core.rs), rustc, the hash containers of ahash. Holds only for the histories executed: exhaustive inside the stated bound, sampled beyond."
META = {
    "C01": {
        "level_text": "Exploration by runtime monitoring: every (abstract state, operation) pair of 3 nodes / <=3 (quick) or <=4 (thorough) live edges is executed against the real directed node types (plain and sync) and the mirror-invariant walker checks the implementation's own account of the graph (iter_out/iter_in, degrees, predicates, lookups) after every operation; random 300-op histories on up to 8 nodes extend it. Exhaustive inside the bound, sampled beyond; not a proof for unbounded histories.",
        "design_ref": "DESIGN.md §5 C01, §3.3-3.5",
        "level_note": SEQ_NOTE,
        "technique": "runtime invariant monitor (mirror walker over public-API observations) on exhaustively enumerated small histories + seeded random histories",
    },
    "C02": {
        "level_text": "Exploration by runtime monitoring: as C01 for the undirected node types; the symmetry walker compares both endpoints' iter() multisets, self-loop multiplicity, degree, is_connected, find_adjacent and is_orphan after every operation of every enumerated and random history.",
        "design_ref": "DESIGN.md §5 C02",
        "level_note": SEQ_NOTE,
        "technique": "runtime invariant monitor (symmetry walker) on exhaustively enumerated small histories + seeded random histories",
    },
    "C03": {
        "level_text": "Exploration by runtime monitoring: a step relation over consecutive observations (the multigraph contract of connect / try_connect / disconnect / isolate, relational where the implementation has a choice) is evaluated on every (abstract state, operation) pair in the bound, for all four flavours, with operands obtained through seven handle provenances; panics are caught, re-entrant lock acquisitions of the sync flavours are reported by the lock hook instead of hanging.",
        "design_ref": "DESIGN.md §5 C03, §3.6",
        "level_note": SEQ_NOTE,
        "technique": "reference-relation monitor over (pre-observation, op, result, post-observation) + lock-hook re-entrancy monitor, exhaustive small state space + random histories",
    },
}
