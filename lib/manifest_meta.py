HOOK_COMMITS = ["8a3a695"]
NOTES = "Runtime monitoring of gdsl: see DESIGN.md. Exit codes: 0 held, 1 VIOLATION, 2 INCONCLUSIVE. Known findings: known_findings.json (read-only at run time)."
NOT_APPLICABLE = {}

SEQ_NOTE = "Trusted base: the harness' observation function and oracles (harness/gv/src/core.rs), rustc, the hash containers of ahash. Holds only for the histories executed: exhaustive inside the stated bound, sampled beyond."
META = {
    "C01": {
        "level_text": "Exploration by runtime monitoring: every (abstract state, operation) pair of 3 nodes / <=3 (quick) or <=4 (thorough) live edges is executed against the real directed node types (plain and sync) and the mirror-invariant walker checks the implementation's own account of the graph (iter_out/iter_in, degrees, predicates, lookups) after every operation; random 300-op histories on up to 8 nodes extend it. Exhaustive inside the bound, sampled beyond; not a proof for unbounded histories.",
        "design_ref": "DESIGN.md §5 C01, §3.3-3.5",
        "level_note": SEQ_NOTE,
        "technique": "runtime invariant monitor (mirror walker over public-API observations) on exhaustively enumerated small histories + seeded random histories",
    },
    "C02": {
        "level_text": "Exploration by runtime monitoring: as C01 for the undirected node types; the symmetry walker compares both endpoints' iter() multisets, self-loop multiplicity, degree, is_connected, find_adjacent and is_orphan after every operation of every enumerated and random history.",
        "design_ref": "DESIGN.md §5 C02",
        "level_note": SEQ_NOTE,
        "technique": "runtime invariant monitor (symmetry walker) on exhaustively enumerated small histories + seeded random histories",
    },
    "C03": {
        "level_text": "Exploration by runtime monitoring: a step relation over consecutive observations (the multigraph contract of connect / try_connect / disconnect / isolate, relational where the implementation has a choice) is evaluated on every (abstract state, operation) pair in the bound, for all four flavours, with operands obtained through seven handle provenances; panics are caught, re-entrant lock acquisitions of the sync flavours are reported by the lock hook instead of hanging.",
        "design_ref": "DESIGN.md §5 C03, §3.6",
        "level_note": SEQ_NOTE,
        "technique": "reference-relation monitor over (pre-observation, op, result, post-observation) + lock-hook re-entrancy monitor, exhaustive small state space + random histories",
    },
}

SEARCH_NOTE = "Trusted base: the reference model (harness/gv/src/model.rs: BFS distances, reachability, shortest cycle, Tarjan, exact DFS pre/post-order deciders), the observation function, rustc. Exhaustive inside the stated graph bounds (all multigraphs as insertion sequences), sampled beyond; says nothing about graphs no workload builds."
def _s(pid, text, ref, tech):
    META[pid] = {"level_text": text, "design_ref": ref, "level_note": SEARCH_NOTE, "technique": tech}

_s("C04", "Exploration by runtime monitoring: bfs target searches of the real code are executed on every multigraph in the bound (3 nodes/<=4 edges quick; 3/<=5 and 4/<=4 thorough) x every root/target x every reject subset and judged against model BFS distances computed on the implementation's own observation of the graph; random graphs to 40 nodes beyond.", "DESIGN.md §5 C04", "reference-model monitor (model BFS on observed graph) over exhaustively enumerated small multigraphs + seeded random graphs")
_s("C05", "Exploration by runtime monitoring: as C04 for dfs, with simple-path validity instead of minimality.", "DESIGN.md §5 C05", "reference-model monitor (reachability + path validity) over enumerated + random graphs")
_s("C06", "Exploration by runtime monitoring: the for_each/filter call log of every pfs run is checked online against the expansion-order rule, target searches against model reachability, and the node comparison operators against value comparison on a (key,value) grid; all value assignments from {0,1,2}^n on small graphs.", "DESIGN.md §5 C06", "trace monitor over the closure call log + reference-model monitor + comparison table")
_s("C07", "Exploration by runtime monitoring: per-edge call counters of for_each versus model reachability for all traversal kinds, and rejected-set intersection on every kind of result for filtered searches.", "DESIGN.md §5 C07", "event-count monitor (exactly-once per reachable edge) + exclusion monitor on results")
_s("C08", "Exploration by differential runtime monitoring: two live instances, G and its list-wise reverse, are searched with transposed resp. plain configurations and must agree exactly in result and closure-call sequence; orientation of every reported edge is checked against the stored edges.", "DESIGN.md §5 C08", "differential monitor on two live instances (transposed on G vs plain on reversed G) + orientation check")
_s("C09", "Exploration by runtime monitoring: search_cycle results of bfs/dfs/pfs on all four flavours against the model's shortest closed walk through the root in the accepted (half-)edge graph, with simplicity and minimality checks on directed results.", "DESIGN.md §5 C09", "reference-model monitor (shortest cycle through root) + cycle validity checks")
_s("C10", "Exploration by runtime monitoring: orderings are decided by exact 'some DFS produces this' procedures (preorder: linear stack simulation; postorder: back-tracking with budget, necessary conditions beyond and counted separately) on the observed graph.", "DESIGN.md §5 C10", "exact DFS-order decision procedures as runtime oracles over enumerated + random graphs")
_s("C11", "Exploration by runtime monitoring: scc() of the real containers against Tarjan on the observed graph for every digraph on <=3 (quick) / <=4 (thorough) nodes, several container instances (hash orders) and insertion orders each, plus non-simple-component family and random graphs.", "DESIGN.md §5 C11", "reference-model monitor (Tarjan partition) across container instances / iteration orders")
