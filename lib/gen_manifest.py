#!/usr/bin/env python3
"""Regenerates /verif/MANIFEST.json from lib/props.py (claimed checks) and lib/manifest_meta.py."""
import json, os, sys
sys.path.insert(0, os.path.dirname(os.path.abspath(__file__)))
from props import PROPS
from manifest_meta import META, NOT_APPLICABLE, HOOK_COMMITS, NOTES

ROOT = os.path.dirname(os.path.dirname(os.path.abspath(__file__)))
ids = [json.loads(l)["id"] for l in open(os.path.join(ROOT, "properties.jsonl"))]
checks = []
for pid in ids:
    if pid not in PROPS or pid not in META:
        continue
    m = META[pid]
    checks.append({
        "property_id": pid,
        "quick_cmd": "./check %s quick" % pid,
        "thorough_cmd": "./check %s thorough" % pid,
        "evidence_file": "/verif/evidence/%s.json" % pid,
        "replay_cmd_template": "./check --replay {path}",
        "engine": m.get("engine", "gv"),
        "level_claimed": {"category": PROPS[pid]["level"], "text": m["level_text"], "design_ref": m["design_ref"]},
        "level_note": m["level_note"],
        "technique": m["technique"],
    })
claimed = {c["property_id"] for c in checks}
na = [{"property_id": p, "reason": NOT_APPLICABLE.get(p, "check not built yet (work in progress); not claimed")} for p in ids if p not in claimed]
man = {
    "version": 1,
    "setup_cmd": "./check --build",
    "hooks": {
        "guard": "cargo feature gdsl_verif",
        "enable": "harness/gv depends on gdsl by path=/repo with features=[\"gdsl_verif\"]; every ./check runs `cargo build` first, so it rebuilds from /repo's working tree",
        "baseline_off_cmd": "cd /repo && cargo test --workspace --no-fail-fast --offline",
        "source_commits": HOOK_COMMITS,
        "add_only": True,
    },
    "engines": [
        {"name": "gv", "path": "/verif/harness/gv", "serves_properties": sorted(claimed),
         "kind_free_text": "Rust harness: flavour-generic monitors (observation function, reference models, invariant walkers, step relations, lock-event scheduler, stress runner) driving the real gdsl code through its public API; sharded over 16 processes by /verif/check; slices of the same sub-commands run under Miri and valgrind memcheck"},
        {"name": "gen", "path": "/verif/harness/gen", "serves_properties": ["C14"],
         "kind_free_text": "crate whose programs are generated at check time by lib/c14.py (macro invocations + structure dumps), compiled against the working tree and executed"},
        {"name": "witness", "path": "/verif/harness/witness", "serves_properties": ["C16"],
         "kind_free_text": "crate whose programs are generated at check time by lib/c16.py (thread-sharing witnesses), submitted to the compiler with hooks off and executed under Miri (many seeds) when accepted"},
    ],
    "checks": checks,
    "notes": NOTES,
    "not_applicable": na,
}
json.dump(man, open(os.path.join(ROOT, "MANIFEST.json"), "w"), indent=1)
print("MANIFEST.json: %d checks, %d not_applicable" % (len(checks), len(na)))
