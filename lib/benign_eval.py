#!/usr/bin/env python3
"""False-alarm test: runs every quick check against a behaviour-preserving change.

  lib/benign_eval.py <dir-with-patch.diff,meta.json> <id> [--props C01,C02] [--tier quick]

The patch is applied to /repo itself, every `./check <prop> <tier>` is run, and
the patch is undone straight afterwards.  The expected verdict for every
property is "held" (exit 0, no VIOLATION line).  Anything else is either a false
alarm of the machinery or a refactor that is not behaviour-preserving after
all; which of the two is decided by hand and recorded in DESIGN.md section 9.
Results go to /verif/benign/<id>/ (patch.diff, meta.json).
"""
import json
import os
import shutil
import subprocess
import sys
import time

ROOT = os.path.dirname(os.path.dirname(os.path.abspath(__file__)))
ALL = ["C%02d" % i for i in range(1, 21)]


def sh(cmd, cwd=None, timeout=7200):
    p = subprocess.run(cmd, cwd=cwd, shell=isinstance(cmd, str), stdout=subprocess.PIPE, stderr=subprocess.STDOUT, text=True, timeout=timeout)
    return p.returncode, p.stdout


def main():
    src, bid = sys.argv[1], sys.argv[2]
    tier = "quick"
    props = ALL
    for i, a in enumerate(sys.argv):
        if a == "--props":
            props = sys.argv[i + 1].split(",")
        if a == "--tier":
            tier = sys.argv[i + 1]
    meta = json.load(open(os.path.join(src, "meta.json")))
    patch = os.path.abspath(os.path.join(src, "patch.diff"))
    rc, out = sh("git -C /repo status --porcelain")
    assert out.strip() == "", "/repo is not clean: " + out
    rc, out = sh("git -C /repo apply %s" % patch)
    assert rc == 0, out
    checks = {}
    try:
        for p in props:
            t = time.time()
            rc, out = sh([os.path.join(ROOT, "check"), p, tier], cwd=ROOT)
            lines = [l for l in out.splitlines() if l.startswith("VIOLATION") or l.startswith("INCONCLUSIVE")]
            detail = [l for l in out.splitlines() if l.startswith("  ") and not l.startswith("  (")][:3]
            checks["%s %s" % (p, tier)] = {"exit": rc, "verdict": {0: "held", 1: "ALARM", 2: "inconclusive"}.get(rc, str(rc)), "lines": lines[:4], "detail": [d[:400] for d in detail] if rc else [], "wall_s": round(time.time() - t, 1)}
    finally:
        sh("git -C /repo checkout -- .")
        sh("git -C /repo clean -fdq src")
        rc, out = sh("git -C /repo status --porcelain")
        assert out.strip() == "", "/repo not restored: " + out
    dst = os.path.join(ROOT, "benign", bid)
    os.makedirs(dst, exist_ok=True)
    shutil.copy(patch, os.path.join(dst, "patch.diff"))
    json.dump({
        "id": bid,
        "summary": meta.get("summary"),
        "why_behaviour_preserving": meta.get("why_behaviour_preserving"),
        "origin": "independent sub-agent given the property texts and a scratch worktree, asked for a behaviour-preserving refactor",
        "existing_tests_pass": meta.get("existing_tests_pass"),
        "what_i_ran": "git -C /repo apply patch.diff; ./check <prop> %s for %s; git -C /repo checkout -- ." % (tier, ",".join(props)),
        "checks": checks,
        "alarms": [k for k, v in checks.items() if v["exit"] != 0],
        "at": time.strftime("%Y-%m-%d %H:%M:%S"),
    }, open(os.path.join(dst, "meta.json"), "w"), indent=1)
    print(json.dumps({"id": bid, "alarms": [k for k, v in checks.items() if v["exit"] != 0], "wall_s": round(sum(v["wall_s"] for v in checks.values()))}))


if __name__ == "__main__":
    main()
