#!/usr/bin/env python3
"""Confirms a seeded change and runs the checks against it.

  lib/seed_eval.py <dir-with-patch.diff,demo.rs,meta.json> <seed-id> [--props C01,C03] [--tier quick]

1. In a scratch worktree of /repo (under /tmp, removed afterwards): the demo
   passes on the clean tree; with the patch applied the crate builds, the
   existing integration tests pass and the demo fails.
2. The patch is applied to /repo itself, `./check <prop> <tier>` is run for the
   broken property (and any others asked for), and the patch is undone
   straight afterwards.
3. Everything is recorded in /verif/seeded/<seed-id>/ (patch.diff, demo.rs,
   meta.json with what was run and what each check said).
"""
import json
import os
import shutil
import subprocess
import sys
import time

ROOT = os.path.dirname(os.path.dirname(os.path.abspath(__file__)))


def sh(cmd, cwd=None, timeout=3600):
    p = subprocess.run(cmd, cwd=cwd, shell=isinstance(cmd, str), stdout=subprocess.PIPE, stderr=subprocess.STDOUT, text=True, timeout=timeout)
    return p.returncode, p.stdout


def main():
    src, sid = sys.argv[1], sys.argv[2]
    tier = "quick"
    props = None
    for i, a in enumerate(sys.argv):
        if a == "--props":
            props = sys.argv[i + 1].split(",")
        if a == "--tier":
            tier = sys.argv[i + 1]
    meta = json.load(open(os.path.join(src, "meta.json")))
    prop = meta.get("property") or meta["breaks_property"]
    props = props or [prop]
    patch = os.path.abspath(os.path.join(src, "patch.diff"))
    demo = os.path.abspath(os.path.join(src, "demo.rs"))
    wt = "/tmp/seedchk_%s" % sid
    result = {"confirmed": False}
    if "--no-confirm" in sys.argv:
        prev = json.load(open(os.path.join(ROOT, "seeded", sid, "meta.json")))
        result = prev["confirmation"]
        wt = None
    else:
        sh("git -C /repo worktree remove --force %s" % wt)
        rc, out = sh("git -C /repo worktree add -q --detach %s HEAD" % wt)
        assert rc == 0, out
    try:
        if wt is None:
            raise StopIteration
        shutil.copy(demo, os.path.join(wt, "tests", "demo.rs"))
        rc, out = sh("cargo test --offline -q --test demo 2>&1 | tail -15", cwd=wt)
        result["demo_on_clean_tree"] = "passes" if "test result: ok" in out else "FAILS: " + out[-500:]
        rc, out = sh("git apply %s" % patch, cwd=wt)
        result["patch_applies"] = rc == 0
        if rc != 0:
            result["apply_error"] = out[-300:]
        os.remove(os.path.join(wt, "tests", "demo.rs"))
        rc, out = sh("cargo test --offline -q --tests 2>&1 | grep -E 'test result|error(\\[|:)' | head -8", cwd=wt)
        result["existing_tests_with_patch"] = "pass" if ("test result: ok" in out and "FAILED" not in out and "error" not in out) else "FAIL: " + out[-500:]
        shutil.copy(demo, os.path.join(wt, "tests", "demo.rs"))
        rc, out = sh("timeout 600 cargo test --offline -q --test demo 2>&1 | tail -15", cwd=wt)
        result["demo_with_patch"] = "fails" if ("test result: ok" not in out) else "PASSES (not a demonstration)"
        result["confirmed"] = (result["demo_on_clean_tree"] == "passes" and result["patch_applies"] and result["existing_tests_with_patch"] == "pass" and result["demo_with_patch"] == "fails")
    except StopIteration:
        pass
    finally:
        if wt is not None:
            sh("git -C /repo worktree remove --force %s" % wt)
            sh("rm -rf %s" % wt)
    checks = {}
    if result.get("patch_applies"):
        rc, out = sh("git -C /repo status --porcelain")
        assert out.strip() == "", "/repo is not clean: " + out
        rc, out = sh("git -C /repo apply %s" % patch)
        assert rc == 0, out
        try:
            for p in props:
                t = time.time()
                rc, out = sh([os.path.join(ROOT, "check"), p, tier], cwd=ROOT, timeout=7200)
                lines = [l for l in out.splitlines() if l.startswith("VIOLATION") or l.startswith("INCONCLUSIVE")]
                detail = [l for l in out.splitlines() if l.startswith("  ") and not l.startswith("  (")][:3]
                checks["%s %s" % (p, tier)] = {"exit": rc, "verdict": {0: "MISSED (held)", 1: "CAUGHT", 2: "inconclusive"}.get(rc, str(rc)), "lines": lines[:4], "detail": [d[:400] for d in detail], "wall_s": round(time.time() - t, 1)}
        finally:
            sh("git -C /repo checkout -- .")
            rc, out = sh("git -C /repo status --porcelain")
            assert out.strip() == "", "/repo not restored: " + out
    dst = os.path.join(ROOT, "seeded", sid)
    os.makedirs(dst, exist_ok=True)
    if os.path.abspath(dst) != os.path.abspath(src):
        shutil.copy(patch, os.path.join(dst, "patch.diff"))
        shutil.copy(demo, os.path.join(dst, "demo.rs"))
    meta_out = {
        "id": sid,
        "breaks_property": prop,
        "summary": meta.get("summary"),
        "needs_to_manifest": meta.get("needs_to_manifest"),
        "origin": "independent sub-agent given only the property text and a scratch worktree",
        "confirmation": result,
        "what_i_ran": "scratch worktree: cargo test --offline --tests (existing suite) and cargo test --offline --test demo with/without the patch; then git -C /repo apply patch.diff, ./check <prop> %s, git -C /repo checkout -- ." % tier,
        "checks": checks,
    }
    # keep earlier check results (e.g. from before a strengthening) for the record
    old = os.path.join(dst, "meta.json")
    if os.path.exists(old):
        try:
            prev = json.load(open(old))
            hist = prev.get("history", [])
            hist.append({"checks": prev.get("checks"), "at": prev.get("at")})
            meta_out["history"] = hist
        except Exception:  # noqa
            pass
    meta_out["at"] = time.strftime("%Y-%m-%d %H:%M:%S")
    json.dump(meta_out, open(old, "w"), indent=1)
    print(json.dumps({"id": sid, "confirmed": result["confirmed"], "confirmation": result, "checks": {k: v["verdict"] for k, v in checks.items()}}, indent=1))


if __name__ == "__main__":
    main()
