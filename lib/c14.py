"""C14: construction macros.  Generates macro programs (seeded), compiles them
against the working tree, runs them and compares the structure dumps with the
denotation computed here."""
import json
import os
import random
import subprocess
import time

FLAVOURS = ["digraph", "sync_digraph", "ungraph", "sync_ungraph"]
DIRECTED = {"digraph": True, "sync_digraph": True, "ungraph": False, "sync_ungraph": False}

# (rust type, [(rust expr, Debug repr, Display repr)])
KEY_POOLS = [
    ("u32", [(str(i), str(i), str(i)) for i in (0, 1, 2, 3, 7, 42, 4294967295)]),
    ("&str", [('"%s"' % s, '"%s"' % s, s) for s in ("A", "B", "C", "node d", "e-5", "F_", "")]),
    ("char", [("'%s'" % c, "'%s'" % c, c) for c in "xyzwq7"]),
    ("String", [('String::from("%s")' % s, '"%s"' % s, s) for s in ("k1", "k2", "k3", "k 4", "K5")]),
]
NVAL_POOLS = [
    ("i32", [("-5", "-5"), ("0", "0"), ("1 + 2", "3"), ("77", "77"), ("i32::MAX", "2147483647")]),
    ("&str", [('"v%d"' % i, '"v%d"' % i) for i in range(5)]),
    ("(i32, i32)", [("(1, 2)", "(1, 2)"), ("(0, -1)", "(0, -1)"), ("(3 * 3, 4)", "(9, 4)")]),
    ("Option<u8>", [("Some(3)", "Some(3)"), ("None", "None"), ("Some(200)", "Some(200)")]),
]
EVAL_POOLS = [
    ("i64", [("10", "10"), ("-1", "-1"), ("2 * 21", "42"), ("0", "0")]),
    ("&str", [('"e%d"' % i, '"e%d"' % i) for i in range(4)]),
    ("(u8, u8)", [("(1, 1)", "(1, 1)"), ("(2, 3)", "(2, 3)")]),
    ("f64", [("1.5", "1.5"), ("0.25", "0.25"), ("-2.0", "-2.0")]),
]


def gen_case(rng, form, kind):
    """kind: normal | empty_lists | no_brackets | unknown_key | single | big"""
    ktype, kpool = rng.choice(KEY_POOLS)
    ntype, npool = rng.choice(NVAL_POOLS)
    etype, epool = rng.choice(EVAL_POOLS)
    # value expressions with side effects (tick() returns 1, 2, 3, ... per invocation): in the edge values
    # or in the node values of an invocation, never both (the order between the two kinds is not specified)
    counter = rng.choice(["E", "N", None, None, None])
    if counter == "E" and form in (3, 4):
        etype, epool = "i64", None
    elif counter == "N" and form in (2, 4):
        ntype, npool = "i64", None
    ticks = [0]

    def pick(pool):
        if pool is None:
            ticks[0] += 1
            return ("tick()", str(ticks[0]))
        return rng.choice(pool)
    nn = {"single": 1, "big": min(len(kpool), 6)}.get(kind, rng.randint(1, min(4, len(kpool))))
    keys = rng.sample(kpool, nn)
    nodes = []
    for k in keys:
        ne = 0 if kind in ("empty_lists", "no_brackets") else rng.randint(0, 4 if kind == "big" else 3)
        edges = []
        for _ in range(ne):
            t = rng.choice(keys)  # forward references, self-loops and repeats all occur
            edges.append((t, pick(epool)))
        nv = pick(npool)
        nodes.append({"key": k, "nval": nv, "edges": edges, "brackets": kind != "no_brackets" and (ne > 0 or rng.random() < 0.7)})
    bad = None
    if kind == "unknown_key":
        outside = [k for k in kpool if k not in keys]
        if not outside:
            return None
        bad = rng.choice(outside)
        victim = rng.choice(nodes)
        victim["edges"].insert(rng.randint(0, len(victim["edges"])), (bad, rng.choice(epool) if epool else ("0", "0")))
        victim["brackets"] = True
    return {"form": form, "ktype": ktype, "ntype": ntype, "etype": etype, "nodes": nodes, "bad": bad, "kind": kind}


def invocation(macro, c):
    form = c["form"]
    has_n = form in (2, 4)
    has_e = form in (3, 4)
    head = "(%s, %s)" % (c["ktype"], c["ntype"]) if has_n else "(%s)" % c["ktype"]
    if has_e:
        head += " => [%s]" % c["etype"]
    parts = [head]
    for n in c["nodes"]:
        node = "(%s, %s)" % (n["key"][0], n["nval"][0]) if has_n else "(%s)" % n["key"][0]
        if n["brackets"]:
            if has_e:
                lst = ", ".join("(%s, %s)" % (t[0], e[0]) for t, e in n["edges"])
            else:
                lst = ", ".join(t[0] for t, _ in n["edges"])
            parts.append("%s => [%s]" % (node, lst))
        else:
            parts.append("%s =>" % node)
    return "%s![\n        %s\n    ]" % (macro, "\n        ".join(parts))


def denotation(flavour, c):
    form = c["form"]
    has_n = form in (2, 4)
    has_e = form in (3, 4)
    glob = []  # (src key, dst key, edge debug) in listing order
    for n in c["nodes"]:
        for t, e in n["edges"]:
            glob.append((n["key"], t, e[1] if has_e else "()"))
    rows = []
    for n in c["nodes"]:
        k = n["key"]
        val = n["nval"][1] if has_n else "()"
        out = ["%s:%s" % (d[1], e) for s, d, e in glob if s == k]
        inn = ["%s:%s" % (s[1], e) for s, d, e in glob if d == k]
        if DIRECTED[flavour]:
            rows.append("%s=%s out[%s] in[%s]" % (k[1], val, ",".join(out), ",".join(inn)))
        else:
            rows.append("%s=%s adj[%s]" % (k[1], val, ",".join(out + inn)))
    rows.sort()
    return "len=%d | %s" % (len(c["nodes"]), " | ".join(rows))


def gen_bin(flavour, form, cases):
    macro = flavour
    lines = ["// generated by /verif/lib/c14.py - do not edit", "#![allow(unused)]", "use gdsl::*;", "use gen::*;", "fn main() {", "    quiet_panics();"]
    for i, c in enumerate(cases):
        lines.append('    println!("CASE %d");' % i)
        lines.append("    match std::panic::catch_unwind(|| {")
        lines.append("        reset_ticks();")
        lines.append("        let g = %s;" % invocation(macro, c).replace("\n", "\n    "))
        lines.append("        (Dump::dump(&g), Dump::type_name(&g).to_string())")
        lines.append("    }) {")
        lines.append('        Ok((d, t)) => println!("OK {}\\nTYPE {}", d, t),')
        lines.append('        Err(e) => println!("PANIC {}", panic_text(e)),')
        lines.append("    }")
    if form == 1:
        lines.append('    println!("CASE EMPTY");')
        lines.append("    { let g = %s!(); println!(\"OK {}\\nTYPE {}\", Dump::dump(&g), Dump::type_name(&g)); }" % macro)
    lines.append("}")
    return "\n".join(lines) + "\n"


def gen_helpers(flavour):
    d = DIRECTED[flavour]
    m = flavour
    body = """// generated by /verif/lib/c14.py - do not edit
#![allow(unused)]
use gen::*;
fn main() {
    quiet_panics();
    // *_node!
    let a: gdsl::%(m)s::Node<u32, (), ()> = gdsl::%(m)s_node!(7u32);
    let b: gdsl::%(m)s::Node<&str, (i32, i32), ()> = gdsl::%(m)s_node!("k", (1, 2));
    println!("NODE1 {:?} {:?}", a.key(), a.value());
    println!("NODE2 {:?} {:?}", b.key(), b.value());
    // *_connect! against Node::connect
    let mk = || {
        let x = gdsl::%(m)s::Node::<u32, i8, i64>::new(1, -1);
        let y = gdsl::%(m)s::Node::<u32, i8, i64>::new(2, -2);
        let z = gdsl::%(m)s::Node::<u32, i8, i64>::new(3, -3);
        (x, y, z)
    };
    let (x, y, z) = mk();
    gdsl::%(m)s_connect!(&x => &y, 10);
    gdsl::%(m)s_connect!(&y => &z, 20);
    gdsl::%(m)s_connect!(&x => &x, 30);
    gdsl::%(m)s_connect!(&x => &y, 40);
    let mut g = gdsl::%(m)s::Graph::new();
    g.insert(x); g.insert(y); g.insert(z);
    println!("MACRO {}", Dump::dump(&g));
    let (x, y, z) = mk();
    x.connect(&y, 10);
    y.connect(&z, 20);
    x.connect(&x, 30);
    x.connect(&y, 40);
    let mut g = gdsl::%(m)s::Graph::new();
    g.insert(x); g.insert(y); g.insert(z);
    println!("PLAIN {}", Dump::dump(&g));
    // unit edge form
    let p = gdsl::%(m)s::Node::<u32, (), ()>::new(1, ());
    let q = gdsl::%(m)s::Node::<u32, (), ()>::new(2, ());
    gdsl::%(m)s_connect!(&p => &q);
    let mut g = gdsl::%(m)s::Graph::new();
    g.insert(p); g.insert(q);
    println!("UNIT {}", Dump::dump(&g));
}
""" % {"m": m}
    return body


def run(ctx, spec, tier, seed, t0):
    """ctx: dict of helpers from the driver (HARNESS, decide, merge, env_offline)."""
    HARNESS = ctx["HARNESS"]
    rng = random.Random(seed * 7919 + 13)
    per_form = 60 if tier == "quick" else 400
    bindir = os.path.join(HARNESS, "gen", "src", "bin")
    os.makedirs(bindir, exist_ok=True)
    for f in os.listdir(bindir):
        os.remove(os.path.join(bindir, f))
    plan = {}
    kinds = ["normal"] * 6 + ["empty_lists", "no_brackets", "unknown_key", "unknown_key", "single", "big"]
    for fl in FLAVOURS:
        for form in (1, 2, 3, 4):
            cases = []
            while len(cases) < per_form:
                c = gen_case(rng, form, rng.choice(kinds))
                if c:
                    cases.append(c)
            name = "%s_form%d" % (fl, form)
            plan[name] = (fl, form, cases)
            open(os.path.join(bindir, name + ".rs"), "w").write(gen_bin(fl, form, cases))
        open(os.path.join(bindir, "helpers_%s.rs" % fl), "w").write(gen_helpers(fl))
    # control file: must compile on any tree on which the macros exist at all
    open(os.path.join(bindir, "control.rs"), "w").write("fn main() { let g = gdsl::digraph![(u32) (1) => [2] (2) =>]; println!(\"{}\", g.len()); }\n")
    p = subprocess.run(["cargo", "build", "--offline", "-p", "gen", "--bins", "--keep-going", "--message-format=short"], cwd=HARNESS,
                       env=ctx["env_offline"](), stdout=subprocess.PIPE, stderr=subprocess.PIPE, text=True)
    counters = {"evaluations": 0, "invocations_compared": 0, "panicking_invocations": 0, "programs_generated": len(plan) + 5,
                "invocations_with_selfloop": 0, "invocations_with_repeated_edge": 0, "invocations_with_forward_reference": 0,
                "invocations_without_brackets": 0, "helper_programs": 0, "invocations_with_side_effecting_values": 0}
    violations, problems, samples, types_seen = [], [], [], {}
    distinct = set()
    tgt = os.path.join(HARNESS, "target", "debug")
    if not os.path.exists(os.path.join(tgt, "control")):
        problems.append("control program does not build: " + p.stderr[-600:])

    def viol(key, what, replay):
        violations.append({"property": "C14", "key": key, "what": what, "replay": replay})

    for name, (fl, form, cases) in sorted(plan.items()):
        exe = os.path.join(tgt, name)
        src = os.path.join(bindir, name + ".rs")
        if not os.path.exists(exe) or os.path.getmtime(exe) < os.path.getmtime(src) - 1:
            errs = [l for l in p.stderr.splitlines() if name + ".rs" in l and "error" in l]
            if os.path.exists(os.path.join(tgt, "control")):
                viol("%s|form%d|does not compile" % (fl, form), "[%s] generated well-formed invocations of %s! form %d do not compile: %s" % (fl, fl, form, " / ".join(errs[:3])[:600]),
                     {"kind": "macro", "source": src, "errors": errs[:10]})
            continue
        r = subprocess.run([exe], stdout=subprocess.PIPE, stderr=subprocess.PIPE, text=True, timeout=120)
        blocks = r.stdout.split("CASE ")[1:]
        got = {}
        for b in blocks:
            lines = b.splitlines()
            got[lines[0].strip()] = lines[1:]
        for i, c in enumerate(cases):
            counters["evaluations"] += 1
            counters["invocations_compared"] += 1
            inv = invocation(fl, c)
            distinct.add(hash((fl, inv)))
            keys_in_order = [n["key"] for n in c["nodes"]]
            if "tick()" in inv:
                counters["invocations_with_side_effecting_values"] += 1
            for ni, n in enumerate(c["nodes"]):
                ts = [t for t, _ in n["edges"]]
                if n["key"] in ts:
                    counters["invocations_with_selfloop"] += 1
                if len(set(x[0] for x in ts)) < len(ts):
                    counters["invocations_with_repeated_edge"] += 1
                if any(t in keys_in_order[ni + 1:] for t in ts):
                    counters["invocations_with_forward_reference"] += 1
                if not n["brackets"]:
                    counters["invocations_without_brackets"] += 1
            out = got.get(str(i))
            if out is None:
                viol("%s|form%d|no output" % (fl, form), "[%s] form %d case %d produced no output (exit %s) for %s" % (fl, form, i, r.returncode, inv), {"kind": "macro", "source": src, "case": i})
                continue
            if c["bad"] is not None:
                counters["panicking_invocations"] += 1
                if not out or not out[0].startswith("PANIC "):
                    viol("%s|form%d|unlisted key accepted" % (fl, form), "[%s] %s names unlisted key %s but returned: %s" % (fl, inv, c["bad"][0], out[:1]), {"kind": "macro", "source": src, "case": i})
                elif c["bad"][2] not in out[0] or (c["bad"][2] == "" and '""' not in out[0]):
                    viol("%s|form%d|panic does not name the key" % (fl, form), "[%s] %s panicked with `%s`, which does not name the unlisted key %s" % (fl, inv, out[0], c["bad"][0]), {"kind": "macro", "source": src, "case": i})
                continue
            want = "OK " + denotation(fl, c)
            if not out or out[0] != want:
                cls = "panics" if out and out[0].startswith("PANIC") else "wrong graph"
                viol("%s|form%d|%s" % (fl, form, cls), "[%s] %s built `%s`, denotation `%s`" % (fl, inv, (out or ["<nothing>"])[0][:400], want[:400]), {"kind": "macro", "source": src, "case": i})
            elif len(samples) < 3 and len(c["nodes"]) >= 2 and rng.random() < 0.05:
                samples.append({"invocation": inv, "dump": out[0]})
            if len(out) > 1 and out[1].startswith("TYPE "):
                t = out[1][5:].split("<")[0]
                types_seen["%s!" % fl] = t
        if form == 1:
            counters["evaluations"] += 1
            e = got.get("EMPTY")
            if not e or e[0] != "OK len=0 | ":
                viol("%s|empty|wrong graph" % fl, "[%s] %s!() built %s" % (fl, fl, e), {"kind": "macro", "source": src})
    for fl in FLAVOURS:
        exe = os.path.join(tgt, "helpers_%s" % fl)
        if not os.path.exists(exe):
            if os.path.exists(os.path.join(tgt, "control")):
                viol("%s|helpers|does not compile" % fl, "[%s] *_node!/*_connect! program does not compile" % fl, {"kind": "macro"})
            continue
        counters["helper_programs"] += 1
        counters["evaluations"] += 4
        r = subprocess.run([exe], stdout=subprocess.PIPE, stderr=subprocess.PIPE, text=True, timeout=60)
        o = dict(l.split(" ", 1) for l in r.stdout.splitlines() if " " in l)
        if o.get("NODE1") != "7 ()" or o.get("NODE2") != '"k" (1, 2)':
            viol("%s|node macro" % fl, "[%s] %s_node! built %s / %s" % (fl, fl, o.get("NODE1"), o.get("NODE2")), {"kind": "macro"})
        if not o.get("MACRO") or o.get("MACRO") != o.get("PLAIN"):
            viol("%s|connect macro" % fl, "[%s] %s_connect! gives `%s`, Node::connect gives `%s`" % (fl, fl, o.get("MACRO"), o.get("PLAIN")), {"kind": "macro"})
        want_unit = "len=2 | 1=() out[2:()] in[] | 2=() out[] in[1:()]" if DIRECTED[fl] else "len=2 | 1=() adj[2:()] | 2=() adj[1:()]"
        if o.get("UNIT") != want_unit:
            viol("%s|connect macro unit form" % fl, "[%s] %s_connect!(&a => &b) gives `%s`" % (fl, fl, o.get("UNIT")), {"kind": "macro"})
    m = ctx["merge"]([])
    m["counters"] = counters
    m["samples"] = samples or [{"note": "no sample drawn"}]
    m["violations"] = violations
    for v in violations:
        m["violation_keys"]["C14|" + v["key"]] = m["violation_keys"].get("C14|" + v["key"], 0) + 1
    m["distinct"] = len(distinct)
    m["notes"] = ["graph type built by each macro: %s" % json.dumps(types_seen, sort_keys=True)]
    return ctx["decide"](spec, tier, seed, m, problems, t0)
