"""Per-property configuration of the driver (`/verif/check`)."""

SEQ_ASSUME = [
    "the harness keeps a strong handle to every node it creates (the properties speak of live nodes)",
    "observation is through the public API only; the C01/C02/C03 oracles are pure functions of consecutive observations",
    "sync flavours run with the gdsl_verif lock hook on: a re-entrant acquisition is reported as a panic instead of hanging",
]

PROPS = {
    "C01": {
        "id": "C01", "cmd": "seq", "level": "exploration",
        "rule": "abstract-state enumeration: breadth-first over canonical observed states (ordered out/in lists, edge ids renamed) of 3 directed nodes with a bounded number of live edges; every (state, op) pair with op in connect/try_connect/disconnect/isolate x all operands (u==v and an unknown key included) is executed on a fresh instance rebuilt from a shortest history, and the mirror walker runs on the post-state; plus seeded random 300-op histories on 2..8 nodes with the walker after every op. A case is non-trivial if the pre-state has an edge or the op adds one; distinct = distinct (flavour, canonical pre-state, op) triples and distinct random histories.",
        "shards": {"quick": 8, "thorough": 16},
        "args": {"quick": [], "thorough": []},
        "exhaustive": {"quick": True, "thorough": True},
        "require": {"any": ["enumerations_completed", "steps_with_parallel_ge3", "selfloop_removed_by_disconnect", "selfloop_removed_by_isolate", "failing_calls", "isolate_of_orphan", "random_histories"]},
        "assumptions": SEQ_ASSUME,
    },
    "C02": {
        "id": "C02", "cmd": "seq", "level": "exploration",
        "rule": "as C01 on the undirected flavours: states are the per-node iter() lists; either endpoint as caller, parallel edges in both creator orientations; the symmetry walker (multiset equality of (peer,edge) between both ends, self-loop listed exactly twice, degree/is_connected/find_adjacent/is_orphan against the lists) runs on every post-state.",
        "shards": {"quick": 8, "thorough": 16},
        "exhaustive": {"quick": True, "thorough": True},
        "require": {"any": ["enumerations_completed", "steps_with_parallel_ge3", "selfloop_removed_by_disconnect", "selfloop_removed_by_isolate", "failing_calls", "isolate_of_orphan", "random_histories"]},
        "assumptions": SEQ_ASSUME,
    },
    "C03": {
        "id": "C03", "cmd": "seq", "level": "exploration",
        "rule": "every (abstract state, op) pair for 3 nodes and a bounded number of live edges on all four flavours, judged by the step relation over (pre-observation, op, result, post-observation): connect appends exactly one edge, try_connect connects iff the caller lists no edge to the peer, disconnect removes exactly the returned edge from both ends or fails without effect, isolate removes exactly the incident edges, no panic / re-entrant lock; operands are obtained through 8 handle provenances (fresh clone of the original, clone of a clone, neighbour lookup, yielded edge endpoint, container get/index, search result, path node, and the long-lived original handle object itself, through which one step in eight and one random history in four run entirely); plus seeded random histories. distinct = distinct (flavour, canonical pre-state, op) triples and distinct random histories.",
        "shards": {"quick": 8, "thorough": 16},
        "exhaustive": {"quick": True, "thorough": True},
        "require": {"any": ["enumerations_completed", "steps_with_parallel_ge3", "selfloop_removed_by_disconnect", "selfloop_removed_by_isolate", "failing_calls", "prov.2", "prov.3", "prov.4", "prov.5", "prov.6", "prov.7", "random_histories"]},
        "assumptions": SEQ_ASSUME,
    },

}

SEARCH_ASSUME = [
    "expectations are computed by the reference model (harness/gv/src/model.rs) on the implementation's own observation of the graph; C01-C03 decide whether that observation is coherent",
    "filters used by the workloads are pure (membership in a fixed reject set over (source, target, edge id))",
    "node values do not change during a search",
]

def _search(pid, rule, quick_bounds, thorough_bounds, quick_random, thorough_random, require):
    return {
        "id": pid, "cmd": "search", "level": "exploration",
        "rule": rule,
        "shards": {"quick": 16, "thorough": 16},
        "args": {"quick": ["--bounds", quick_bounds, "--random", str(quick_random), "--large", "400"],
                 "thorough": ["--bounds", thorough_bounds, "--random", str(thorough_random), "--large", "6000"]},
        "exhaustive": {"quick": True, "thorough": True},
        "require": {"any": ["enumerations_completed", "graphs_with_selfloop", "graphs_with_parallel_edges", "random_graphs"] + require},
        "assumptions": SEARCH_ASSUME,
        "timeout": {"quick": 400, "thorough": 3000},
    }

ENUM = "graphs are enumerated as insertion sequences (every multigraph with self-loops and parallel edges, every insertion order) within the node/edge bounds given in counters, x every root (x every target != root) x every subset of rejected edge ids plus sampled direction-dependent predicates; seeded random graphs of 3..40 nodes from six families (sparse, dense, dag, cycle-with-chords, disconnected, star-with-parallel) with sampled roots/targets/filters and node values from a small (ties) or a wide range; large structured graphs of 40..3000 nodes from seven families (long chain + gadget, ring, grid, wide star + cycle, deep tree + cross edges, corridor with loops, fan with sibling chain) with a few roots/targets each. distinct = distinct (flavour, graph, priorities, root/target/filter configuration) with at least one edge."

PROPS.update({
    "C04": _search("C04", "bfs().target(t).search_path()/search() against model BFS distances on the accepted sub-graph: presence iff reachable, path starts at root, ends at target, chained existing accepted edges, length = model distance, search() agrees, Path accessors agree with each other. " + ENUM, "3:4,4:3", "3:5,4:4", 3000, 30000, ["unreachable_targets", "filter_disconnects_target", "paths_len_ge2"]),
    "C05": _search("C05", "dfs().target(t).search_path()/search(): presence iff reachable in the accepted sub-graph, valid chained path of existing accepted edges, no node twice, search() agrees. " + ENUM, "3:4,4:3", "3:5,4:4", 3000, 30000, ["unreachable_targets", "filter_disconnects_target", "paths_len_ge2"]),
    "C06": _search("C06", "pfs min/max: (i) expansion order read off the for_each/filter call log (blocks of equal source; at the start of a block no discovered, unexpanded node with edges has a strictly better value), with and without target; (ii) target search validity as C04 minus minimality; (iii) comparison operators of nodes over a 3x3 (key,value) grid. Node values from {0,1,2}^n, all assignments for n<=3. " + ENUM, "3:3", "3:4,4:3", 1500, 15000, ["unreachable_targets", "pfs_traversals_with_ge3_expansions", "comparison_pairs"]),
    "C07": _search("C07", "for_each without target on bfs/dfs/pfs-min/pfs-max/preorder/postorder: multiset of closure calls == multiset of edges leaving reachable nodes (undirected: once per endpoint, self-loop twice), true endpoints and value; with filters: no rejected edge in any path/ordering/cycle/edge list, results only for what is reachable through accepted edges, closure only ever sees true edges. " + ENUM, "3:3", "3:4,4:3", 1500, 15000, ["foreach_logs_ge3_calls", "filtered_searches"]),
    "C08": _search("C08", "differential on two live instances: every search configuration {bfs,dfs,pfs-min,pfs-max,pre,post} x {search,search_path,search_cycle,search_nodes,search_edges} x root x target x filter with transpose() on G must equal, result and closure-call sequence, the plain configuration on the list-wise reversed instance G^R; transposed reports must be stored edges u->v shown as (v,u,e); non-transposed traversals only report stored out-edges. Directed flavours. " + ENUM, "3:3", "3:4,4:3", 1500, 15000, ["differential_pairs_with_result"]),
    "C09": _search("C09", "search_cycle for bfs/dfs/pfs: presence iff the root reaches itself through >=1 accepted edges (undirected: accepted half-edges), result starts/ends at root, chained existing accepted edges; directed: no edge / intermediate node twice, root not inside, bfs result of minimum length. " + ENUM, "3:4,4:3", "3:5,4:4", 3000, 30000, ["acyclic_roots", "selfloop_cycles", "cycles_len_ge3"]),
    "C10": _search("C10", "preorder()/postorder() (directed) and order().pre()/.post() (undirected): search_nodes is a permutation of the model's reachable set with the root first/last and is producible by some DFS (preorder: exact stack simulation; postorder: exact back-tracking decision with a step budget, necessary conditions only beyond, counted separately); search_edges = one existing accepted edge per non-root node in the same order. " + ENUM, "3:4,4:3", "3:5,4:4", 3000, 30000, ["orders_ge3_nodes", "postorder_exact_decisions"]),
})

PROPS["C11"] = {
    "id": "C11", "cmd": "scc", "level": "exploration",
    "rule": "every directed graph (self-loops allowed) on 1..N nodes, N=3 quick / 4 thorough, as an edge set with varying insertion order, plus a fixed family of non-simple components (figure-8, nested cycles, cycle-with-chord, DAG-of-cycles, parallel edges) and seeded random graphs up to 30 nodes; each graph is put into several container instances (own hash iteration order, shuffled insertion order) and scc() is compared with Tarjan on the observed graph: partition of the members, same component iff mutually reachable. distinct = distinct (flavour, graph, container iteration order).",
    "shards": {"quick": 8, "thorough": 16},
    "args": {"quick": ["--max-n", "4", "--instances", "3", "--random", "3000"], "thorough": ["--max-n", "4", "--instances", "8", "--random", "60000"]},
    "exhaustive": {"quick": True, "thorough": True},
    "require": {"any": ["enumerations_completed", "graphs_with_non_simple_component", "graphs_with_several_components_one_nontrivial", "fixed_family_graphs", "random_graphs", "distinct_container_iteration_orders"]},
    "assumptions": ["all neighbours of members are members (premise of the property)", "the hash order of a container instance is not reproducible; replay re-runs 64 instances"],
    "timeout": {"quick": 300, "thorough": 2400},
}

PROPS["C12"] = {
    "id": "C12", "cmd": "serde_rt", "level": "exploration",
    "rule": "every multigraph (as insertion sequence, self-loops and parallel edges) within the node/edge bound and seeded random graphs up to 40 nodes, in each of the four containers, several container instances (hash orders) each, is serialised and deserialised with JSON and CBOR; the result is compared with the original through the observation function (keys, node values, per-node ordered out-list for directed / multiset of incident edges for undirected, degrees, C01/C02 walkers) and a second round trip must be a fixed point; plus Graph<String, Option<i8>, (u8, String)> instances with hostile key strings. distinct = distinct (flavour, format, graph, instance).",
    "shards": {"quick": 8, "thorough": 16},
    "args": {"quick": ["--max-n", "3", "--max-e", "3", "--random", "1500", "--typed", "2000"], "thorough": ["--max-n", "3", "--max-e", "4", "--random", "30000", "--typed", "100000"]},
    "exhaustive": {"quick": True, "thorough": True},
    "require": {"any": ["enumerations_completed", "graphs_with_selfloop", "graphs_with_parallel_edges", "random_graphs", "typed_roundtrips", "ungraph.json", "sync_ungraph.cbor", "digraph.cbor", "sync_digraph.json"]},
    "assumptions": ["node values and edge values serialise faithfully (serde_json / serde_cbor and the payload impls are trusted)"],
    "timeout": {"quick": 300, "thorough": 2400},
}
PROPS["C13"] = {
    "id": "C13", "cmd": "serde_fuzz", "level": "exploration",
    "rule": "documents = hand-written synthetic documents, 19 kinds of structural mutation (drop, duplicate, swap, move/copy to end, move to front, retype to null/string/negative/2^32/float/array/object/bool, nest, retarget to an undeclared key, arity +1/-1, increment) at every position of every valid seed document (all multigraphs on <=2 nodes/<=2 edges plus richer seeds), double mutations on the small seeds, truncation at every byte, inflation of every CBOR length header to huge counts, re-encodings with indefinite-length arrays and tags, the same content in map / multi-list shapes, seeded random byte/token mutations; JSON and CBOR; four containers. Oracle: no panic, no hang (CPU-time watchdog); Ok(graph) must pass the invariant walk, contain only nodes and edge copies that a lenient parse of the same bytes declares, and must not have been accepted if an edge names an undeclared key. distinct = distinct documents per flavour.",
    "shards": {"quick": 8, "thorough": 16},
    "args": {"quick": ["--random", "3000000"], "thorough": ["--random", "60000000"]},
    "exhaustive": {"quick": False, "thorough": False},
    "require": {"any": ["enumerations_completed", "documents_accepted", "documents_rejected", "accepted_with_edges", "structural_mutations", "truncations", "random_mutations", "synthetic_documents", "cbor_length_inflations", "double_mutations", "alternative_shape_documents", "cbor_reencodings"]},
    "assumptions": ["'declared by the document' is computed by serde_json::Value / serde_cbor::Value parses of the same bytes"],
    "timeout": {"quick": 300, "thorough": 2400},
}

PROPS["C18"] = {
    "id": "C18", "cmd": "container", "level": "exploration",
    "rule": "histories over the alphabet {insert of either of two distinct node objects per key, remove, connect / disconnect / isolate on members and non-members, connect / isolate through handles handed out by get / index / to_vec / iter}: every sequence of the stated depth over the stated key count is enumerated, plus seeded random histories of 300 calls on 2..6 keys and of 400 calls on 7..24 keys (larger containers, remove / re-insert of another object under the same key, views after edge removals); after every call len/is_empty/contains/get/index/to_vec/iter/roots/leaves/orphans are compared with a key->node-object map model (identity by payload instance), changes made through handed-out nodes must be visible through the original handles, and the DOT exports of the final graph are parsed line by line against the members, the edges obtained by iterating them and the attributes returned by 27 callback combinations. distinct = distinct (flavour, history).",
    "shards": {"quick": 8, "thorough": 16},
    "args": {"quick": ["--keys", "2", "--depth", "3", "--random", "30000"], "thorough": ["--keys", "2", "--depth", "4", "--random", "600000"]},
    "exhaustive": {"quick": True, "thorough": True},
    "require": {"any": ["enumerations_completed", "insert_of_other_object_on_present_key", "remove_of_absent_key", "edge_ops_touching_non_members", "changes_through_handed_out_nodes", "dot_exports_with_edges", "dot_attr_exports", "random_histories"]},
    "assumptions": ["connected node objects have distinct keys (premise of the node properties): only one object per key ever takes part in edge operations", "Display of u32 keys contains no whitespace or '->', so DOT text can be parsed by line"],
    "timeout": {"quick": 300, "thorough": 2400},
}

PROPS["C19"] = {
    "id": "C19", "cmd": "leak", "level": "exploration",
    "rule": "scenarios = (multigraph on <=N nodes / <=E connects incl. self-loops, cycles, parallel edges) x 14 sets of extra handles (container, yielded edge, bfs path, dfs cycle, preorder nodes, postorder edges, clone, found node) and optional neighbour lookups / refused try_connects from both ends and a history of searches of every kind (found and absent targets, transposed, cycles, orderings) before the drops x drop orders (all permutations up to 4 handles, 14 sampled beyond: originals first, last, shuffled); random scenarios on 2..8 nodes add disconnect/isolate before the drops. After every single drop: no payload of a node that a surviving handle mentions has been released, every surviving handle still reads key/value of its nodes (own payload instance), and once some original handles are gone every surviving node handle is poked (iter_out/iter_in/find_* for every key, each under catch_unwind): an entry for a departed neighbour may panic but never yields a node whose value was already released; after the last drop: live count 0 and every payload instance released exactly once. The same sub-command is re-run under valgrind memcheck (leak check, definite+indirect) and under Miri (leak report at exit, UB) as independent oracles. distinct = distinct (flavour, graph, handle set, drop order).",
    "shards": {"quick": 8, "thorough": 16},
    "args": {"quick": ["--max-n", "3", "--max-e", "2", "--random", "40000"], "thorough": ["--max-n", "3", "--max-e", "3", "--random", "1000000"]},
    "valgrind": {"quick": {"procs": 8, "args": ["--max-n", "2", "--max-e", "2", "--random", "400"], "timeout": 600},
                 "thorough": {"procs": 16, "args": ["--max-n", "3", "--max-e", "2", "--random", "4000"], "timeout": 1800}},
    "miri": {"quick": {"procs": 16, "nshards": 1600, "args": ["--max-n", "2", "--max-e", "1", "--random", "0"], "timeout": 900},
             "thorough": {"procs": 16, "nshards": 96, "args": ["--max-n", "2", "--max-e", "1", "--random", "64"], "timeout": 3000}},
    "exhaustive": {"quick": True, "thorough": True},
    "require": {"any": ["enumerations_completed", "scenarios_with_selfloop", "handle.container", "handle.edge", "handle.path", "handle.search_nodes result", "handle.search_edges result", "reads_through_surviving_handles", "random_scenarios", "valgrind.scenarios", "miri.scenarios", "scenarios_with_lookups_before_drop", "scenarios_with_search_history_before_drop", "pokes_of_survivors_after_partial_drop"]},
    "assumptions": ["the drop counters keep no addresses, so they cannot hide a leak from memcheck or Miri", "'usable' is read as: key(), value() and degree readable through the surviving handle; iterating or looking up an entry whose peer the program itself dropped may panic (dangling neighbour, outside the properties' live-node premise) - such calls are made under catch_unwind and judged for one thing only: they never hand out a node whose value was already released"],
    "timeout": {"quick": 300, "thorough": 2400},
}

PROPS["C20"] = {
    "id": "C20", "cmd": "mutate", "level": "exploration",
    "rule": "cases = (multigraph on 2..3 nodes within the edge bound) x loop kind (iter_out/iter, iter_in, `for e in &node`, and bfs/dfs/pfs-min/pfs-max/preorder/postorder x for_each/filter x plain/transposed x with/without target x search_cycle: 3+39 kinds directed, 2+21 undirected) x root x trigger step x script; scripts = every single operation from {connect, try_connect, disconnect, isolate} x operands {iterated/source node, yielded peer, root, third node}^2, queries, 12 kinds of nested search, container insert/remove/get (113 scripts), fired once or at every following step; plus seeded random cases with 1-3 op scripts on up to 6 nodes. The harness applies every mutation it performs to a model, so each yielded edge is tested for membership at the moment of the yield; also: no panic / re-entrant lock (hook), logical step bound after the last edge-adding op, earlier handles unchanged, final state == model and passes the C01/C02 walkers. distinct = distinct cases in which the loop reached the trigger step (script actually ran inside the loop).",
    "shards": {"quick": 16, "thorough": 16},
    "args": {"quick": ["--max-n", "3", "--max-e", "1", "--random", "400000"], "thorough": ["--max-n", "3", "--max-e", "2", "--random", "8000000"]},
    "exhaustive": {"quick": True, "thorough": True},
    "require": {"any": ["enumerations_completed", "cases_where_script_fired", "random_cases", "yields_observed"]},
    "assumptions": ["the harness keeps a strong handle to every node (container remove never frees a connected node)", "mutations performed inside loops obey the C03 contract (their return values drive the model)"],
    "timeout": {"quick": 300, "thorough": 3000},
}

PROPS["C15"] = {
    "id": "C15", "cmd": "dropin", "level": "exploration",
    "rule": "programs over the API common to both flavours (connect/try_connect/disconnect/isolate with 7 handle provenances, degree/predicate/lookup queries, the three edge iterators, every search/ordering configuration with for_each logs and reject-set filters, container insert/remove/get/index/len/to_vec/iter/roots/leaves/orphans, scc, JSON/CBOR text, DOT, edge and node comparison operators) are generated from the seed (50..300 calls, 2..6 nodes) and executed on digraph vs sync_digraph and ungraph vs sync_ungraph; transcripts (one line per call, keys and values only; hash-order dependent output canonicalised; scc compared only when it equals the model partition) must be equal. In addition every (abstract state, op) pair of the C03 enumeration for 3 nodes is run side by side with all iterators and queries afterwards, and random programs that mutate the graph from inside edge loops and traversal closures (the C20 workload) are run on both flavours and compared in the sequence of yielded edges and the final adjacency. distinct = distinct programs.",
    "shards": {"quick": 16, "thorough": 16},
    "args": {"quick": ["--programs", "20000", "--max-edges", "2"], "thorough": ["--programs", "600000", "--max-edges", "3"]},
    "exhaustive": {"quick": False, "thorough": False},
    "require": {"any": ["enumerations_completed", "programs", "calls.search", "calls.serde", "calls.scc", "calls.dot", "calls.compare", "calls.container", "enumerated_state_op_pairs", "mutating_loop_programs"]},
    "assumptions": ["sizeof() and APIs that exist in one flavour only (with_capacity, Index<&K>, to_dot_with_attr/sizeof of ungraph) are not part of the common API", "compile-time differences between the flavours (trait bounds) are outside what executions can show"],
    "timeout": {"quick": 300, "thorough": 3000},
}

PROPS["C17"] = {
    "id": "C17", "cmd": "conc", "level": "model_checking",
    "rule": "deterministic schedule exploration of the real code: scenarios = canonical (initial edges, thread bodies) over <=3 nodes with calls from {connect, try_connect, disconnect, isolate, degree/predicate queries, is_connected/find queries, one full bfs}, all operand choices; every interleaving of lock acquisitions of every scenario is executed (stateless depth-first re-execution with a choice prefix) in two lock-fairness modes (permissive; writer-preferring as in the futex RwLock), each run judged for deadlock (no enabled worker, lock table reported), panic / poisoned lock, and serialisability against the outcomes of all sequential orders of the same calls on the same implementation (final ordered adjacency of all nodes + results of mutating calls). quick: all 2 threads x 1 call scenarios with <=1 initial edge plus 12 hand-picked three-thread / two-against-one scenarios (rings of disconnects and connects, readers between two writers; 5 000-schedule budget each, 40 000 in the thorough tier), 16 'migration' scenarios of the undirected flavour (an edge that exists at every instant moves between a node's two lists while try_connect looks for it), and 8 four-thread scenarios (two traversals - dfs, bfs, pre/postorder, pfs - entering a cycle from opposite ends while one writer per node queues in between) whose schedules are sampled at random from the seed (600 per fairness mode, 10 000 in the thorough tier); thorough: <=2 initial edges, plus strided samples of 2+1 calls and 3 threads. distinct = distinct canonical scenarios with more than one schedule.",
    "shards": {"quick": 16, "thorough": 16},
    "args": {"quick": ["--shapes", "1+1:1", "--budget", "500000", "--targeted", "--sampled-budget", "600"], "thorough": ["--shapes", "1+1:2", "--budget", "500000", "--targeted", "--targeted-budget", "40000", "--sampled-budget", "10000"]},
    "exhaustive": {"quick": True, "thorough": True},
    "require": {"any": ["enumerations_completed", "scenarios_fully_explored", "scenarios_clean", "schedules", "lock_events.before", "lock_steps_scheduled", "distinct_final_outcomes", "targeted_scenarios", "sampled_scenarios", "random_schedules"]},
    "assumptions": ["lock points are sufficient scheduling points: the only shared mutable state of the sync flavours is inside the per-node RwLock", "fairness of std's RwLock is left open by its contract; both a permissive and a writer-preferring policy are explored", "known findings are matched by exact scenario + anomaly kinds + bad-outcome signature; see known_findings.json"],
    "timeout": {"quick": 600, "thorough": 3400},
}

PROPS["C17"]["phases"] = {
    "quick": [{"cmd": "stress", "shards": 16, "args": ["--iterations", "150", "--ops", "300"]}],
    "thorough": [{"cmd": "conc", "shards": 16, "args": ["--shapes", "2+1:1,1+1+1:0", "--budget", "3000", "--stride", "6"]},
                 {"cmd": "stress", "shards": 16, "args": ["--iterations", "6000", "--ops", "400"]}],
}
PROPS["C17"]["miri"] = {
    "quick": {"cmd": "conc_free", "procs": 26, "args": [], "per_proc_args": (lambda i: ["--index", str(i // 2)]), "miriflags": "-Zmiri-many-seeds=0..6", "timeout": 900},
    "thorough": {"cmd": "conc_free", "procs": 26, "args": [], "per_proc_args": (lambda i: ["--index", str(i // 2)]), "miriflags": "-Zmiri-many-seeds=0..48", "timeout": 3000},
}
PROPS["C17"]["rule"] += " Two further layers, restricted to call pairs without open finding: free-running stress (3 real threads, real futex lock, seeded yields/spins injected at lock points; families owned-pairs and one-writer; oracles: no deadlock by a no-progress + all-threads-asleep criterion, no panic/poison, per-pair conservation of edges, invariant walkers at quiescence) and twelve small scenarios run with real threads under Miri with many seeds (deadlock, data race, UB, serialisability of the outcome)."
PROPS["C17"]["require"]["any"] += ["stress_iterations", "stress.injected_yields", "stress.acquisitions_that_had_to_block", "miri.free_runs"]

import c14
PROPS["C14"] = {
    "id": "C14", "cmd": "-", "level": "exploration", "run_fn": c14.run,
    "rule": "generated programs: for each of the 4 macros x 4 signature forms a seeded generator writes a Rust program with 60 (quick) / 400 (thorough) well-formed invocations (keys u32/&str/char/String incl. the empty string, node values i32/&str/tuple/Option, edge values i64/&str/tuple/f64, pure value expressions and side-effecting ones (a counter: each listed expression must be evaluated exactly once, in listing order), self-loops, repeated edges, forward references, empty edge lists, `=>` without a bracket list, single-node and larger graphs, and invocations naming an unlisted key); each program is compiled against the working tree and run, and every structure dump (members, values, per-node ordered edge lists with values) is compared with the denotation computed by the generator; unlisted keys must panic naming the key; the empty form and the *_node!/*_connect! helpers are compared with Node::new/connect. distinct = distinct invocation texts.",
    "exhaustive": {"quick": False, "thorough": False},
    "require": {"any": ["invocations_compared", "panicking_invocations", "invocations_with_selfloop", "invocations_with_repeated_edge", "invocations_with_forward_reference", "invocations_without_brackets", "helper_programs", "invocations_with_side_effecting_values"]},
    "assumptions": ["the dump goes through the public API (iter, iter_out/iter_in, key, value); C01/C02 decide whether those views are coherent", "the statement is about contents: the concrete graph type a macro builds is recorded in the evidence notes, not judged"],
}

import c16
PROPS["C16"] = {
    "id": "C16", "cmd": "-", "level": "exploration", "run_fn": c16.run,
    "rule": "witness programs = {sync_digraph, sync_ungraph} x {Node, Edge, Graph, Path (search result), edge iterator, container iterator} x sharing mode {clone moved into thread::spawn, &T in thread::scope, Arc<T>} x payload position {K, N, E} x hostile payload {Cell-based (Send, !Sync), Rc-based (!Send, !Sync), Cell-based whose Clone writes (Send, !Sync; the library clones stored keys and edge values itself)}, plus the same with benign (Arc<AtomicU64>) payloads in all positions, plus plain digraph/ungraph witnesses with u64 payloads, plus search builders (bfs/dfs/pfs/orderings) whose closure reaches a Send-but-not-Sync node value, moved into another thread; both threads touch key, value and edge values; a 'churn' witness has one thread connect/disconnect while the other iterates the same nodes. Each witness is submitted to the compiler with hooks off: rejected with E0277 naming Send/Sync = not constructible; accepted = run under Miri with many seeds, a data race / UB in an accepted hostile or plain witness is a violation, benign witnesses must build and run race-free. distinct = distinct witness programs.",
    "exhaustive": {"quick": True, "thorough": True},
    "require": {"any": ["hostile_rejected_for_send_sync", "plain_rejected_for_send_sync", "positive_accepted", "positive_run_race_free", "miri_runs"]},
    "assumptions": ["the universally quantified statement over all K, N, E is a fact about the trait solver and is not decided by executions; only these concrete witnesses are", "a hostile witness that compiles but in which Miri observes no race is reported in the evidence notes, not as a violation"],
}

# small Miri slices (undefined behaviour / leaks in code reached through gdsl under mutation histories)
PROPS["C03"]["miri"] = {
    "quick": {"procs": 16, "nshards": 64, "args": ["--nodes", "2", "--max-edges", "1", "--histories", "64", "--hist-len", "12"], "timeout": 900},
    "thorough": {"procs": 16, "nshards": 16, "args": ["--nodes", "2", "--max-edges", "1", "--histories", "256", "--hist-len", "25"], "timeout": 3000},
}
PROPS["C20"]["miri"] = {
    "quick": {"procs": 16, "nshards": 16, "args": ["--max-n", "2", "--max-e", "1", "--random", "128", "--case-stride", "797"], "timeout": 900},
    "thorough": {"procs": 16, "nshards": 16, "args": ["--max-n", "2", "--max-e", "1", "--random", "1024", "--case-stride", "97"], "timeout": 3000},
}
PROPS["C03"]["rule"] += " A slice of the same sub-command (2 nodes, short histories) runs under Miri: undefined behaviour or leaks in the code reached are violations."
PROPS["C20"]["rule"] += " A slice of the same sub-command (2 nodes, a few hundred cases) runs under Miri: undefined behaviour (e.g. an unchecked index after the list changed) is a violation."
PROPS["C12"]["rule"] = PROPS["C12"]["rule"].replace("plus Graph<String, Option<i8>, (u8, String)> instances with hostile key strings.", "plus Graph<String, Option<i8>, (u8, String)> instances with hostile key strings and Graph<LossyKey, Vec<Option<i64>>, (String, f64, i64)> instances (keys whose Display forms collide, -0.0 / extreme floats and integers, compared bit-wise).")
PROPS["C12"]["require"]["any"].append("typed2_roundtrips")
