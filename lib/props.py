"""Per-property configuration of the driver (`/verif/check`)."""

SEQ_ASSUME = [
    "the harness keeps a strong handle to every node it creates (the properties speak of live nodes)",
    "observation is through the public API only; the C01/C02/C03 oracles are pure functions of consecutive observations",
    "sync flavours run with the gdsl_verif lock hook on: a re-entrant acquisition is reported as a panic instead of hanging",
]

PROPS = {
    "C01": {
        "id": "C01", "cmd": "seq", "level": "exploration",
        "rule": "abstract-state enumeration: breadth-first over canonical observed states (ordered out/in lists, edge ids renamed) of 3 directed nodes with a bounded number of live edges; every (state, op) pair with op in connect/try_connect/disconnect/isolate x all operands (u==v and an unknown key included) is executed on a fresh instance rebuilt from a shortest history, and the mirror walker runs on the post-state; plus seeded random 300-op histories on 2..8 nodes with the walker after every op. A case is non-trivial if the pre-state has an edge or the op adds one; distinct = distinct (flavour, canonical pre-state, op) triples and distinct random histories.",
        "shards": {"quick": 8, "thorough": 16},
        "args": {"quick": [], "thorough": []},
        "exhaustive": {"quick": True, "thorough": True},
        "require": {"any": ["enumerations_completed", "steps_with_parallel_ge3", "selfloop_removed_by_disconnect", "selfloop_removed_by_isolate", "failing_calls", "isolate_of_orphan", "random_histories"]},
        "assumptions": SEQ_ASSUME,
    },
    "C02": {
        "id": "C02", "cmd": "seq", "level": "exploration",
        "rule": "as C01 on the undirected flavours: states are the per-node iter() lists; either endpoint as caller, parallel edges in both creator orientations; the symmetry walker (multiset equality of (peer,edge) between both ends, self-loop listed exactly twice, degree/is_connected/find_adjacent/is_orphan against the lists) runs on every post-state.",
        "shards": {"quick": 8, "thorough": 16},
        "exhaustive": {"quick": True, "thorough": True},
        "require": {"any": ["enumerations_completed", "steps_with_parallel_ge3", "selfloop_removed_by_disconnect", "selfloop_removed_by_isolate", "failing_calls", "isolate_of_orphan", "random_histories"]},
        "assumptions": SEQ_ASSUME,
    },
    "C03": {
        "id": "C03", "cmd": "seq", "level": "exploration",
        "rule": "every (abstract state, op) pair for 3 nodes and a bounded number of live edges on all four flavours, judged by the step relation over (pre-observation, op, result, post-observation): connect appends exactly one edge, try_connect connects iff the caller lists no edge to the peer, disconnect removes exactly the returned edge from both ends or fails without effect, isolate removes exactly the incident edges, no panic / re-entrant lock; operands are obtained through 7 handle provenances (original, clone, neighbour lookup, yielded edge endpoint, container get/index, search result, path node); plus seeded random histories. distinct = distinct (flavour, canonical pre-state, op) triples and distinct random histories.",
        "shards": {"quick": 8, "thorough": 16},
        "exhaustive": {"quick": True, "thorough": True},
        "require": {"any": ["enumerations_completed", "steps_with_parallel_ge3", "selfloop_removed_by_disconnect", "selfloop_removed_by_isolate", "failing_calls", "prov.2", "prov.3", "prov.4", "prov.5", "prov.6", "random_histories"]},
        "assumptions": SEQ_ASSUME,
    },
}
