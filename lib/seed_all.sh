#!/bin/sh
# Re-runs every kept seeded change against its check (quick tier by default):
#   lib/seed_all.sh [quick|thorough]
# Applies each patch to /repo, runs the check, undoes the patch.  Prints one line per seed.
cd "$(dirname "$0")/.." || exit 2
tier=${1:-quick}
for d in seeded/*/; do
  id=$(basename "$d")
  python3 lib/seed_eval.py "$d" "$id" --no-confirm --tier "$tier" 2>&1 | python3 -c "
import sys,json
t=sys.stdin.read()
try:
    d=json.loads(t); print(d['id'], d['checks'])
except Exception: print('ERR', t[-400:])"
done
