#!/usr/bin/env python3
"""Regenerates the open C17 entries of known_findings.json from a full
exploration of all two-thread one-call scenarios (<=2 initial edges, <=3
nodes) on the CURRENT /repo tree.  Run by hand on the reference tree only;
the result is reviewed and committed.  Checks never call this."""
import json, os, subprocess, sys
ROOT = os.path.dirname(os.path.dirname(os.path.abspath(__file__)))
GV = os.path.join(ROOT, "harness", "target", "debug", "gv")
N = 16
subprocess.check_call(["cargo", "build", "--offline", "-q", "-p", "gv"], cwd=os.path.join(ROOT, "harness"), stderr=subprocess.DEVNULL)
procs = []
for i in range(N):
    out = "/verif/harness/target/shards/known_%d.json" % i
    os.makedirs(os.path.dirname(out), exist_ok=True)
    procs.append((subprocess.Popen([GV, "conc", "--prop", "C17", "--shapes", "1+1:2", "--budget", "500000", "--shard", str(i), "--nshards", str(N), "--out", out]), out))
classes = {}
for p, out in procs:
    p.wait()
    r = json.load(open(out))
    os.remove(out)
    for v in r["violations"]:
        fl, cls, scen, kinds, sig = v["key"].split(" ## ")
        assert sig.startswith("sig="), v["key"]
        e = classes.setdefault((fl, cls), {"scenarios": {}, "kinds": set(), "example": None})
        e["scenarios"][scen] = "%s ## %s" % (kinds, sig)
        e["kinds"].update(kinds.split("+"))
        if e["example"] is None or len(scen) < len(e["example"][0]):
            e["example"] = (scen, v["what"])
# phase 2: locally minimal failing scenarios of the larger shapes explored by the thorough tier (same shapes,
# same budget, stride 1 = the whole space), e.g. `connect(0,0); connect(1,1) || connect(0,1)`: each cross-thread
# pair is serialisable on its own, the three calls together are not
LARGER_SHAPES = "2+1:1,1+1+1:0"
LARGER_BUDGET = "3000"
N2 = 64
todo = list(range(N2))
running = []
larger = {}
while todo or running:
    while todo and len(running) < N:
        i = todo.pop()
        out = "/verif/harness/target/shards/known2_%d.json" % i
        running.append((subprocess.Popen([GV, "conc", "--prop", "C17", "--shapes", LARGER_SHAPES, "--budget", LARGER_BUDGET, "--shard", str(i), "--nshards", str(N2), "--out", out]), out))
    p, out = running.pop(0)
    p.wait()
    r = json.load(open(out))
    os.remove(out)
    for v in r["violations"] + [{"key": k.split("|", 1)[1], "what": None} for k in r.get("violation_keys", []) if k.startswith("C17|")]:
        fl, cls, scen, kinds, sig = v["key"].split(" ## ")
        # keyed on the explored three-call scenario itself; the class is that of its locally minimal failing part
        if (fl, cls) in classes:
            e = classes[(fl, cls)]
            e.setdefault("larger", {})
        else:
            e = larger.setdefault((fl, cls), {"scenarios": {}, "larger": {}, "kinds": set(), "example": None})
        if sig.startswith("sig="):
            e["scenarios"][scen] = "%s ## %s" % (kinds, sig)
        else:
            e["larger"][scen] = kinds
        e["kinds"].update(kinds.split("+"))
        if v["what"] and (fl, cls) in larger and (e["example"] is None or len(scen) < len(e["example"][0])):
            e["example"] = (scen, v["what"])
path = os.path.join(ROOT, "known_findings.json")
k = json.load(open(path))
k["findings"] = [f for f in k["findings"] if not (f["property"] == "C17" and f["status"] == "open")]
for (fl, cls), e in sorted(classes.items()):
    k["findings"].append({
        "property": "C17", "status": "open", "key": "%s ## %s" % (fl, cls),
        "what": "[%s] %s: %s in some schedules (%d initial-edge variants listed); multi-lock operations are sequences of per-node critical sections, not atomic. Example: %s" % (
            fl, cls, " and ".join(sorted(e["kinds"])), len(e["scenarios"]), e["example"][1][:420]),
        "scenarios": dict(sorted(e["scenarios"].items())),
        **({"larger": dict(sorted(e["larger"].items())), "explored_with": {"shapes": "1+1:2 whole space; " + LARGER_SHAPES + " whole space", "budget": "500000; " + LARGER_BUDGET}} if e.get("larger") else {}),
    })
for (fl, cls), e in sorted(larger.items()):
    k["findings"].append({
        "property": "C17", "status": "open", "key": "%s ## %s" % (fl, cls),
        "what": "[%s] %s: %s in some schedules although every cross-thread pair of these calls is serialisable on its own (%d initial-edge variants listed); multi-lock operations are not atomic across their two nodes. Example: %s" % (
            fl, cls, " and ".join(sorted(e["kinds"])), len(e["larger"]) + len(e["scenarios"]), (e["example"] or ("", ""))[1][:420]),
        "scenarios": dict(sorted(e["scenarios"].items())),
        "larger": dict(sorted(e["larger"].items())),
        "explored_with": {"shapes": LARGER_SHAPES, "budget": LARGER_BUDGET},
    })
json.dump(k, open(path, "w"), indent=1)
print("larger classes:", len(larger), "scenarios:", sum(len(e["larger"]) + len(e["scenarios"]) for e in larger.values()), "three-call scenarios filed under pair classes:", sum(len(e.get("larger", {})) for e in classes.values()))
print("classes:", len(classes), "scenarios:", sum(len(e["scenarios"]) for e in classes.values()))
