//! Payload types for the thread-sharing witnesses (C16).
use std::cell::Cell;
use std::fmt;
use std::hash::{Hash, Hasher};
use std::rc::Rc;
use std::sync::atomic::{AtomicU64, Ordering};
use std::sync::Arc;

pub trait Poke {
    fn poke(&self);
}

/// Send but not Sync.
#[derive(Clone)]
pub struct SendNotSync(pub Cell<u64>);
/// Neither Send nor Sync.
#[derive(Clone)]
pub struct NotSend(pub Rc<Cell<u64>>);
/// Send and Sync.
#[derive(Clone)]
pub struct Benign(pub Arc<AtomicU64>);
/// Send but not Sync, and *cloning writes* through the cell (a clone counter):
/// the library clones stored keys and edge values on behalf of its callers, so
/// two threads that merely iterate a shared node race on this payload.
pub struct CloneMut(pub Cell<u64>);
impl Clone for CloneMut {
    fn clone(&self) -> Self {
        self.0.set(self.0.get().wrapping_add(1));
        CloneMut(Cell::new(self.0.get()))
    }
}
impl Poke for CloneMut {
    fn poke(&self) {
        let _ = self.0.get();
    }
}
pub fn cm(v: u64) -> CloneMut {
    CloneMut(Cell::new(v))
}

impl Poke for SendNotSync {
    fn poke(&self) {
        self.0.set(self.0.get().wrapping_add(1));
    }
}
impl Poke for NotSend {
    fn poke(&self) {
        self.0.set(self.0.get().wrapping_add(1));
    }
}
impl Poke for Benign {
    fn poke(&self) {
        self.0.fetch_add(1, Ordering::SeqCst);
    }
}
impl Poke for u64 {
    fn poke(&self) {}
}
impl Poke for () {
    fn poke(&self) {}
}

pub fn sns(v: u64) -> SendNotSync {
    SendNotSync(Cell::new(v))
}
pub fn ns(v: u64) -> NotSend {
    NotSend(Rc::new(Cell::new(v)))
}
pub fn ben(v: u64) -> Benign {
    Benign(Arc::new(AtomicU64::new(v)))
}

macro_rules! key_impls {
    ($t:ty, $get:expr) => {
        impl PartialEq for $t {
            fn eq(&self, o: &Self) -> bool {
                $get(self) / 1000 == $get(o) / 1000
            }
        }
        impl Eq for $t {}
        impl Hash for $t {
            fn hash<H: Hasher>(&self, h: &mut H) {
                ($get(self) / 1000).hash(h)
            }
        }
        impl fmt::Display for $t {
            fn fmt(&self, f: &mut fmt::Formatter) -> fmt::Result {
                write!(f, "{}", $get(self) / 1000)
            }
        }
    };
}
// identity of a key = value / 1000, so that pokes (+1) do not change it
key_impls!(SendNotSync, |x: &SendNotSync| x.0.get());
key_impls!(NotSend, |x: &NotSend| x.0.get());
key_impls!(Benign, |x: &Benign| x.0.load(Ordering::SeqCst));
key_impls!(CloneMut, |x: &CloneMut| x.0.get());
