//! C01 / C02 / C03: histories of edge operations.
//!  * abstract-state enumerator: breadth-first over the canonical observed
//!    states, every (state, op) pair executed on a fresh instance;
//!  * seeded random long histories, oracle after every operation.

use crate::core::*;
use crate::flav::*;
use crate::report::*;
use crate::types::*;
use serde_json::json;
use std::collections::{HashSet, VecDeque};

pub struct SeqCfg {
    pub prop: String,
    pub nodes: usize,
    pub max_edges: usize,
    pub random_hist: u64,
    pub hist_len: usize,
    pub seed: u64,
    pub do_enum: bool,
}

fn class_of(msg: &str) -> String {
    // digits stripped: stable class of a discrepancy message
    let s: String = msg.chars().filter(|c| !c.is_ascii_digit()).collect();
    s.chars().take(70).collect()
}

pub fn all_ops(n: usize) -> Vec<Op> {
    let mut v = vec![];
    let nk = n as K;
    for a in 0..nk {
        for b in 0..nk {
            v.push(Op::Connect(a, b));
            v.push(Op::TryConnect(a, b));
        }
        for b in 0..=nk {
            // key n = a key no node has
            v.push(Op::Disconnect(a, b));
        }
        v.push(Op::Isolate(a));
    }
    v
}

pub struct StepOut {
    pub pre: Option<Obs>,
    pub post: Option<Obs>,
    pub res: Res,
    pub msgs: Vec<String>,
    pub used: (u32, u32),
}

/// Evaluates the oracle of `prop` on one executed step.
fn judge<F: Flav>(prop: &str, pre: &Obs, op: Op, res: &Res, eid: Option<Eid>, post: &Result<Obs, String>) -> Vec<String> {
    let mut msgs = vec![];
    match prop {
        "C01" | "C02" => match post {
            Ok(p) => msgs.extend(check_invariant::<F>(p)),
            Err(e) => {
                // a state no view can describe; after a panicking call this is
                // C03's business (panic) unless the views themselves fail
                if !matches!(res, Res::Panic(_)) {
                    msgs.push(format!("views panic after {}: {}", op.short(), e));
                }
            }
        },
        _ => match post {
            Ok(p) => msgs.extend(check_step::<F>(pre, op, res, eid, p)),
            Err(e) => {
                if let Res::Panic(pm) = res {
                    msgs.push(format!("{} panicked: {}", op.short(), pm));
                } else {
                    msgs.push(format!("state unobservable after {}: {}", op.short(), e));
                }
            }
        },
    }
    msgs
}

/// Replays `hist` on a fresh world (no checks), then runs `op` with the
/// oracle of `prop`.
pub fn run_step<F: Flav>(prop: &str, n: usize, hist: &[Op], op: Op, prov: (u32, u32)) -> StepOut {
    let mut w = World::<F>::new(n);
    // when the judged call goes through the long-lived original handles, so does the whole history
    // (state a handle object accumulates over its calls must not matter)
    let hp = if prov.0 % PROV_KINDS == 7 { (7, 7) } else { (0, 0) };
    for h in hist {
        let _ = exec::<F>(&mut w, *h, hp);
    }
    let pre = match observe::<F>(&w) {
        Ok(o) => o,
        Err(e) => {
            return StepOut {
                pre: None,
                post: None,
                res: Res::Panic(e.clone()),
                msgs: vec![format!("pre-state unobservable: {}", e)],
                used: (0, 0),
            }
        }
    };
    let (res, eid, used) = exec::<F>(&mut w, op, prov);
    let post = observe::<F>(&w);
    let msgs = judge::<F>(prop, &pre, op, &res, eid, &post);
    StepOut {
        pre: Some(pre),
        post: post.ok(),
        res,
        msgs,
        used,
    }
}

fn note_coverage<F: Flav>(rep: &mut Report, pre: &Obs, op: Op, res: &Res, used: (u32, u32)) {
    let f = F::NAME;
    rep.count(&format!("{}.steps", f));
    rep.count(&format!("op.{}", op.name()));
    match res {
        Res::Err(_) => rep.count("failing_calls"),
        Res::Panic(_) => rep.count("panicking_calls"),
        _ => {}
    }
    rep.count(&format!("prov.{}", used.0));
    if used.1 != 0 {
        rep.count(&format!("prov.{}", used.1));
    }
    let n = pre.n.len();
    // parallel edges present
    let mut maxpar = 0;
    for u in 0..n {
        for w in 0..n {
            let c = pre.n[u].out.iter().filter(|(p, _)| *p as usize == w).count();
            let c = if !F::DIRECTED && u == w { c / 2 } else { c };
            maxpar = maxpar.max(c);
        }
    }
    if maxpar >= 2 {
        rep.count("steps_with_parallel_ge2");
    }
    if maxpar >= 3 {
        rep.count("steps_with_parallel_ge3");
    }
    let maxdeg = pre.n.iter().map(|x| x.out.len().max(x.inn.len())).max().unwrap_or(0);
    if maxdeg >= 17 {
        rep.count("steps_with_list_ge17");
    }
    if maxdeg >= 33 {
        rep.count("steps_with_list_ge33");
    }
    if maxdeg >= 65 {
        rep.count("steps_with_list_ge65");
    }
    let selfloop = |u: usize| pre.n[u].out.iter().any(|(p, _)| *p as usize == u);
    match op {
        Op::Disconnect(a, k) => {
            if a == k && selfloop(a as usize) {
                rep.count("selfloop_removed_by_disconnect");
            }
            if !pre.n[a as usize].out.iter().any(|(p, _)| *p == k) {
                rep.count("disconnect_without_edge");
            }
        }
        Op::Isolate(a) => {
            if selfloop(a as usize) {
                rep.count("selfloop_removed_by_isolate");
            }
            if pre.n[a as usize].out.is_empty() && pre.n[a as usize].inn.is_empty() {
                rep.count("isolate_of_orphan");
            }
        }
        Op::TryConnect(a, b) => {
            if pre.n[a as usize].out.iter().any(|(p, _)| *p == b) {
                rep.count("try_connect_on_existing");
            }
            if a == b {
                rep.count("selfloop_connects");
            }
        }
        Op::Connect(a, b) => {
            if a == b {
                rep.count("selfloop_connects");
            }
        }
    }
}

pub fn run_enum<F: Flav>(rep: &mut Report, cfg: &SeqCfg) {
    let n = cfg.nodes;
    let ops = all_ops(n);
    let mut seen: HashSet<u64> = HashSet::new();
    let mut queue: VecDeque<Vec<Op>> = VecDeque::new();
    queue.push_back(vec![]);
    {
        let w = World::<F>::new(n);
        let o = observe::<F>(&w).expect("harness: empty world unobservable");
        seen.insert(fnv_str(&o.canon()));
        let m = check_invariant::<F>(&o);
        if !m.is_empty() && cfg.prop != "C03" {
            rep.violation(&cfg.prop, format!("{}|initial", F::NAME), m[0].clone(), json!({"kind":"seq","flavour":F::NAME,"n":n,"history":"","op":null}));
        }
    }
    let mut state_idx: u32 = 0;
    while let Some(hist) = queue.pop_front() {
        state_idx += 1;
        rep.count(&format!("{}.states", F::NAME));
        rep.count("states");
        for (oi, op) in ops.iter().enumerate() {
            let kind = state_idx.wrapping_mul(31).wrapping_add(oi as u32);
            let prov = (kind % PROV_KINDS + if kind & 16 != 0 { 8 } else { 0 }, (kind / 7) % PROV_KINDS);
            let out = run_step::<F>(&cfg.prop, n, &hist, *op, prov);
            rep.count("evaluations");
            rep.count("pairs");
            let pre = match &out.pre {
                Some(p) => p,
                None => continue,
            };
            note_coverage::<F>(rep, pre, *op, &out.res, out.used);
            let nontrivial = pre.live_edges(F::DIRECTED) > 0 || matches!(op, Op::Connect(..) | Op::TryConnect(..));
            if nontrivial {
                rep.distinct(fnv_str(&format!("{}|{}|{}", F::NAME, pre.canon(), op.short())));
            }
            if !out.msgs.is_empty() {
                let key = format!("{}|{}|{}|{}", F::NAME, op.short(), pre.canon(), class_of(&out.msgs[0]));
                rep.violation(
                    &cfg.prop,
                    key,
                    format!("[{}] after `{}` then `{}`: {}", F::NAME, hist_str(&hist), op.short(), out.msgs.join("; ")),
                    json!({"kind":"seq","prop":cfg.prop,"flavour":F::NAME,"n":n,"history":hist_str(&hist),"op":op.short(),"prov":[prov.0,prov.1],
                           "pre": pre.brief(), "post": out.post.as_ref().map(|p| p.brief()), "result": format!("{:?}", out.res)}),
                );
                continue; // do not expand from a broken step
            }
            if let Some(post) = &out.post {
                if post.live_edges(F::DIRECTED) <= cfg.max_edges {
                    let h = fnv_str(&post.canon());
                    if seen.insert(h) {
                        let mut nh = hist.clone();
                        nh.push(*op);
                        if rep.samples.len() < 2 && nh.len() >= 3 {
                            rep.sample(json!({"flavour":F::NAME,"enumerated_state_history":hist_str(&nh),"state":post.brief()}));
                        }
                        queue.push_back(nh);
                    }
                }
            }
        }
    }
    rep.count("enumerations_completed");
}

/// Workload profiles of the random histories.
///  0 balanced: all operations, frequent isolates (degrees stay small);
///  1 growth: mostly connects, rare isolates: adjacency lists grow to dozens of entries with many parallel edges;
///  2 hub: one node takes part in most operations (lists of 30-100 entries), is isolated now and then and rebuilt.
fn random_op(rng: &mut Rng, n: usize, hot: usize, profile: u64) -> Op {
    let pickk = |rng: &mut Rng| -> K {
        if rng.chance(6, 10) {
            rng.below(hot.min(n)) as K
        } else {
            rng.below(n) as K
        }
    };
    let (mut a, mut b) = (pickk(rng), 0);
    b = if rng.chance(1, 8) { a } else { pickk(rng) };
    if profile == 2 && rng.chance(8, 10) {
        // the hub is node 0
        if rng.chance(1, 2) {
            a = 0;
            b = rng.below(n) as K;
        } else {
            b = 0;
            a = rng.below(n) as K;
        }
    }
    let r = rng.below(1000);
    let (c, t, d) = match profile {
        0 => (400, 550, 870),
        1 => (600, 690, 985),
        _ => (620, 700, 985),
    };
    if r < c {
        Op::Connect(a, b)
    } else if r < t {
        Op::TryConnect(a, b)
    } else if r < d {
        if rng.chance(1, 30) {
            Op::Disconnect(a, n as K)
        } else {
            Op::Disconnect(a, b)
        }
    } else if profile == 2 && rng.chance(1, 2) {
        Op::Isolate(0)
    } else {
        Op::Isolate(a)
    }
}

/// Runs a full history with the oracle after every op; returns the index of
/// the first failing op and its messages.
fn run_history<F: Flav>(prop: &str, n: usize, hist: &[(Op, (u32, u32))], rep: Option<&mut Report>) -> Option<(usize, Vec<String>, String)> {
    let mut w = World::<F>::new(n);
    let mut pre = match observe::<F>(&w) {
        Ok(o) => o,
        Err(_) => return None,
    };
    let mut rep = rep;
    for (i, (op, prov)) in hist.iter().enumerate() {
        let (res, eid, used) = exec::<F>(&mut w, *op, *prov);
        let post = observe::<F>(&w);
        if let Some(r) = rep.as_deref_mut() {
            r.count("evaluations");
            note_coverage::<F>(r, &pre, *op, &res, used);
        }
        let msgs = judge::<F>(prop, &pre, *op, &res, eid, &post);
        if !msgs.is_empty() {
            return Some((i, msgs, pre.canon()));
        }
        match post {
            Ok(p) => pre = p,
            Err(_) => return None,
        }
    }
    None
}

pub fn run_random<F: Flav>(rep: &mut Report, cfg: &SeqCfg, rng: &mut Rng) {
    for hi in 0..cfg.random_hist {
        let profile = hi % 3;
        let n = if profile == 2 { 3 + rng.below(10) } else { 2 + rng.below(7) };
        let hot = 2 + rng.below(2);
        let mut hist = vec![];
        rep.count(&format!("profile.{}", ["balanced", "growth", "hub"][profile as usize]));
        for _ in 0..cfg.hist_len {
            let op = random_op(rng, n, hot, profile);
            // every fourth history runs entirely through the long-lived original handles
            let prov = if hi % 4 == 3 { (7, 7) } else { (rng.below(16) as u32, rng.below(8) as u32) };
            hist.push((op, prov));
        }
        rep.count("random_histories");
        rep.count(&format!("{}.random_histories", F::NAME));
        let ops_only: Vec<Op> = hist.iter().map(|x| x.0).collect();
        rep.distinct(fnv_str(&format!("{}|{}|{}", F::NAME, n, hist_str(&ops_only))));
        if hi == 0 {
            rep.sample(json!({"flavour":F::NAME,"random_history_nodes":n,"first_ops":hist_str(&ops_only[..ops_only.len().min(25)]),"length":ops_only.len()}));
        }
        if let Some((idx, msgs, _)) = run_history::<F>(&cfg.prop, n, &hist, Some(rep)) {
            // shrink: drop earlier ops while the same class of failure remains at the end
            let cls = class_of(&msgs[0]);
            let mut cur: Vec<(Op, (u32, u32))> = hist[..=idx].to_vec();
            let mut tries = 0;
            let mut i = 0;
            while i + 1 < cur.len() && tries < 3000 {
                let mut cand = cur.clone();
                cand.remove(i);
                tries += 1;
                match run_history::<F>(&cfg.prop, n, &cand, None) {
                    Some((j, m, _)) if j == cand.len() - 1 && class_of(&m[0]) == cls => cur = cand,
                    _ => i += 1,
                }
            }
            let (fidx, fmsgs, fpre) = run_history::<F>(&cfg.prop, n, &cur, None).unwrap_or((idx, msgs.clone(), String::new()));
            let ops_min: Vec<Op> = cur.iter().map(|x| x.0).collect();
            let last = ops_min[fidx.min(ops_min.len() - 1)];
            let key = format!("{}|{}|{}|{}", F::NAME, last.short(), fpre, cls);
            rep.violation(
                &cfg.prop,
                key,
                format!("[{}] random history (n={}), minimised to `{}`: {}", F::NAME, n, hist_str(&ops_min), fmsgs.join("; ")),
                json!({"kind":"seq_history","prop":cfg.prop,"flavour":F::NAME,"n":n,
                       "history": hist_str(&ops_min), "prov": cur.iter().map(|x| vec![x.1.0, x.1.1]).collect::<Vec<_>>(),
                       "original_length": idx + 1}),
            );
            if rep.total_violations() > 40 {
                rep.notes.push("stopped random histories early: more than 40 violations".into());
                return;
            }
        }
    }
}

/// Re-executes a recorded seq violation verbosely.
pub fn replay<F: Flav>(v: &serde_json::Value) -> bool {
    let prop = v["prop"].as_str().unwrap_or("C03");
    let n = v["n"].as_u64().unwrap_or(3) as usize;
    let hist = parse_hist(v["history"].as_str().unwrap_or(""));
    if v["kind"] == "seq" {
        let op = match v["op"].as_str().and_then(Op::parse) {
            Some(o) => o,
            None => return false,
        };
        let prov = (v["prov"][0].as_u64().unwrap_or(0) as u32, v["prov"][1].as_u64().unwrap_or(0) as u32);
        let out = run_step::<F>(prop, n, &hist, op, prov);
        println!("flavour={} history=`{}` op={} result={:?}", F::NAME, hist_str(&hist), op.short(), out.res);
        if let Some(p) = &out.pre {
            println!("pre : {}", p.brief());
        }
        if let Some(p) = &out.post {
            println!("post: {}", p.brief());
        }
        for m in &out.msgs {
            println!("DISCREPANCY: {}", m);
        }
        !out.msgs.is_empty()
    } else {
        let provs: Vec<(u32, u32)> = v["prov"]
            .as_array()
            .map(|a| a.iter().map(|p| (p[0].as_u64().unwrap_or(0) as u32, p[1].as_u64().unwrap_or(0) as u32)).collect())
            .unwrap_or_default();
        let h: Vec<(Op, (u32, u32))> = hist.iter().enumerate().map(|(i, o)| (*o, provs.get(i).copied().unwrap_or((0, 0)))).collect();
        match run_history::<F>(prop, n, &h, None) {
            Some((i, msgs, _)) => {
                println!("flavour={} history=`{}` fails at op #{} ({})", F::NAME, hist_str(&hist), i, hist[i].short());
                for m in &msgs {
                    println!("DISCREPANCY: {}", m);
                }
                true
            }
            None => {
                println!("history `{}` passes", hist_str(&hist));
                false
            }
        }
    }
}

/// Shortest histories reaching every canonical abstract state (no checks).
pub fn enumerate_states<F: Flav>(n: usize, max_edges: usize) -> Vec<Vec<Op>> {
    let ops = all_ops(n);
    let mut seen: HashSet<u64> = HashSet::new();
    let mut queue: VecDeque<Vec<Op>> = VecDeque::new();
    let mut out = vec![];
    queue.push_back(vec![]);
    {
        let w = World::<F>::new(n);
        if let Ok(o) = observe::<F>(&w) {
            seen.insert(fnv_str(&o.canon()));
        }
    }
    while let Some(hist) = queue.pop_front() {
        out.push(hist.clone());
        for op in &ops {
            let mut w = World::<F>::new(n);
            for h in &hist {
                let _ = exec::<F>(&mut w, *h, (0, 0));
            }
            let (res, _, _) = exec::<F>(&mut w, *op, (0, 0));
            if matches!(res, Res::Panic(_)) {
                continue;
            }
            if let Ok(post) = observe::<F>(&w) {
                if post.live_edges(F::DIRECTED) <= max_edges && seen.insert(fnv_str(&post.canon())) {
                    let mut nh = hist.clone();
                    nh.push(*op);
                    queue.push_back(nh);
                }
            }
        }
    }
    out
}
