//! C11: Graph::scc() against Tarjan on the observed graph, over several
//! container instances (each with its own hash iteration order) and
//! insertion orders per graph.

use crate::core::*;
use crate::flav::*;
use crate::model::*;
use crate::report::*;
use crate::search::{build, random_graph};
use crate::types::*;
use serde_json::json;
use std::collections::HashSet;

fn check_partition(m: &Model, comps: &[Vec<K>]) -> Vec<String> {
    let mut v = vec![];
    let n = m.n;
    let mut where_: Vec<Option<usize>> = vec![None; n];
    for (ci, c) in comps.iter().enumerate() {
        if c.is_empty() {
            v.push("empty component returned".into());
        }
        for k in c {
            if (*k as usize) >= n {
                v.push(format!("component contains foreign node {}", k));
                continue;
            }
            if where_[*k as usize].is_some() {
                v.push(format!("node {} appears in more than one component (or twice)", k));
            }
            where_[*k as usize] = Some(ci);
        }
    }
    for k in 0..n {
        if where_[k].is_none() {
            v.push(format!("node {} appears in no component", k));
        }
    }
    if !v.is_empty() {
        return v;
    }
    let t = m.scc();
    'outer: for a in 0..n {
        for b in (a + 1)..n {
            let same = where_[a] == where_[b];
            let want = t[a] == t[b];
            if same != want {
                v.push(format!(
                    "nodes {} and {} are {} but {} mutually reachable",
                    a,
                    b,
                    if same { "in one component" } else { "in different components" },
                    if want { "are" } else { "are not" }
                ));
                break 'outer;
            }
        }
    }
    v
}

pub fn eval_scc<F: Flav>(edges: &[(K, K)], n: usize, instances: usize, rng: &mut Rng, rep: &mut Report, orders_seen: &mut HashSet<u64>) {
    let prios = vec![0; n];
    let g = match build::<F>(&prios, edges) {
        Ok(g) => g,
        Err(e) => {
            rep.inconclusive.push(format!("graph unobservable: {}", e));
            return;
        }
    };
    rep.count("graphs");
    let t = g.m.scc();
    let ncomp = t.iter().collect::<HashSet<_>>().len();
    let nontrivial_comp = (0..n).any(|a| (0..n).any(|b| a != b && t[a] == t[b]));
    if nontrivial_comp {
        rep.count("graphs_with_nontrivial_component");
    }
    // a component that is not a simple cycle: some member has two successors inside it
    let mut non_simple = false;
    for a in 0..n {
        let mut inside: HashSet<K> = HashSet::new();
        for (b, _) in &g.m.out[a] {
            if *b as usize != a && t[*b as usize] == t[a] {
                inside.insert(*b);
            }
        }
        if inside.len() >= 2 {
            non_simple = true;
        }
    }
    if non_simple {
        rep.count("graphs_with_non_simple_component");
    }
    if ncomp >= 2 && nontrivial_comp {
        rep.count("graphs_with_several_components_one_nontrivial");
    }
    for inst in 0..instances {
        let mut order: Vec<usize> = (0..n).collect();
        if inst > 0 {
            rng.shuffle(&mut order);
        }
        let mut c = F::g_new();
        for i in &order {
            F::g_insert(&mut c, g.w.nodes[*i].clone());
        }
        let iter_order: Vec<K> = F::g_iter(&c).iter().map(|(k, _)| *k).collect();
        orders_seen.insert(fnv_str(&format!("{:?}", iter_order)));
        rep.count("evaluations");
        rep.distinct(fnv_str(&format!("{}|{:?}|{:?}", F::NAME, edges, iter_order)));
        let res = catch(|| F::g_scc(&c).expect("harness: directed flavour without scc"));
        let mut msgs = vec![];
        let mut comps_k: Vec<Vec<K>> = vec![];
        match res {
            Err(p) => msgs.push(format!("scc() panicked: {}", p)),
            Ok(comps) => {
                for comp in &comps {
                    let mut ck = vec![];
                    for h in comp {
                        let k = F::key(h) as usize;
                        if k >= n || F::val(h).inst != g.w.insts[k] {
                            msgs.push(format!("scc() hands out a foreign node for key {}", k));
                        }
                        ck.push(F::key(h));
                    }
                    comps_k.push(ck);
                }
                msgs.extend(check_partition(&g.m, &comps_k));
            }
        }
        if !msgs.is_empty() {
            let cls: String = msgs[0].chars().filter(|c| !c.is_ascii_digit()).take(50).collect();
            rep.violation(
                "C11",
                format!("{}|scc|{}", F::NAME, cls),
                format!("[{}] graph connects={:?} (n={}), container iteration order {:?}: scc() = {:?}: {}", F::NAME, edges, n, iter_order, comps_k, msgs.join("; ")),
                json!({"kind":"scc","prop":"C11","flavour":F::NAME,"n":n,"connects":edges,"iteration_order":iter_order,"insertion_order":order}),
            );
        }
    }
}

fn fixed_family() -> Vec<(usize, Vec<(K, K)>)> {
    vec![
        // figure-8: two cycles sharing node 0
        (5, vec![(0, 1), (1, 2), (2, 0), (0, 3), (3, 4), (4, 0)]),
        // 0<->1, 0<->2 (component that is not a simple cycle)
        (3, vec![(0, 1), (1, 0), (0, 2), (2, 0)]),
        // nested cycles
        (6, vec![(0, 1), (1, 2), (2, 3), (3, 0), (1, 4), (4, 5), (5, 1)]),
        // cycle with chord
        (5, vec![(0, 1), (1, 2), (2, 3), (3, 4), (4, 0), (1, 3), (3, 1)]),
        // DAG of cycles
        (7, vec![(0, 1), (1, 0), (1, 2), (2, 3), (3, 2), (3, 4), (4, 5), (5, 6), (6, 4)]),
        // self-loops and isolated nodes
        (4, vec![(0, 0), (1, 1), (1, 2)]),
        // complete digraph on 4
        (4, vec![(0, 1), (0, 2), (0, 3), (1, 0), (1, 2), (1, 3), (2, 0), (2, 1), (2, 3), (3, 0), (3, 1), (3, 2)]),
        // parallel edges inside a component
        (3, vec![(0, 1), (0, 1), (1, 0), (1, 2), (2, 1), (2, 1)]),
    ]
}

pub fn run<F: Flav>(rep: &mut Report, max_n: usize, instances: usize, random: u64, shard: u64, nshards: u64, rng: &mut Rng) {
    let mut orders_seen = HashSet::new();
    let mut gidx = 0u64;
    for n in 1..=max_n {
        let pairs: Vec<(K, K)> = (0..n as K).flat_map(|a| (0..n as K).map(move |b| (a, b))).collect();
        let total = 1u64 << pairs.len();
        for mask in 0..total {
            gidx += 1;
            if gidx % nshards != shard {
                continue;
            }
            let mut edges: Vec<(K, K)> = pairs.iter().enumerate().filter(|(i, _)| mask & (1 << i) != 0).map(|(_, p)| *p).collect();
            // insertion order of edges varies with the graph number
            if mask % 3 == 1 {
                edges.reverse();
            } else if mask % 3 == 2 {
                rng.shuffle(&mut edges);
            }
            if rep.samples.len() < 2 && edges.len() >= 4 && mask % 211 == 7 {
                rep.sample(json!({"enumerated_digraph":{"flavour":F::NAME,"n":n,"connects":edges}}));
            }
            eval_scc::<F>(&edges, n, instances, rng, rep, &mut orders_seen);
            if rep.total_violations() > 300 {
                return;
            }
        }
    }
    rep.count("enumerations_completed");
    if shard == 0 {
        for (n, e) in fixed_family() {
            rep.count("fixed_family_graphs");
            eval_scc::<F>(&e, n, instances * 4, rng, rep, &mut orders_seen);
        }
    }
    for gi in 0..random {
        let (n, edges, fam) = random_graph(rng);
        let n = n.min(30);
        let edges: Vec<(K, K)> = edges.into_iter().filter(|(a, b)| (*a as usize) < n && (*b as usize) < n).collect();
        rep.count("random_graphs");
        if gi == 0 {
            rep.sample(json!({"random_digraph":{"flavour":F::NAME,"family":fam,"n":n,"edges":edges.len()}}));
        }
        eval_scc::<F>(&edges, n, 8, rng, rep, &mut orders_seen);
    }
    rep.add("distinct_container_iteration_orders", orders_seen.len() as u64);
}

pub fn replay<F: Flav>(v: &serde_json::Value) -> bool {
    let n = v["n"].as_u64().unwrap_or(3) as usize;
    let edges: Vec<(K, K)> = v["connects"]
        .as_array()
        .map(|a| a.iter().map(|x| (x[0].as_u64().unwrap_or(0) as K, x[1].as_u64().unwrap_or(0) as K)).collect())
        .unwrap_or_default();
    let mut rep = Report::new();
    let mut rng = Rng::new(7);
    let mut seen = HashSet::new();
    // the hash order of a container instance cannot be re-created; run many instances
    eval_scc::<F>(&edges, n, 64, &mut rng, &mut rep, &mut seen);
    println!("replayed scc on connects={:?} n={} over 64 container instances ({} distinct iteration orders): {} failing", edges, n, seen.len(), rep.total_violations());
    for x in rep.violations.iter().take(4) {
        println!("DISCREPANCY: {}", x.what);
    }
    rep.total_violations() > 0
}
