//! C19: edges never own nodes — no leaks, no premature release.
//! Drop-counting payloads decide it natively; the same workload is also run
//! under Miri (leak report at exit) and valgrind memcheck by the driver.

use crate::core::*;
use crate::flav::*;
use crate::report::*;
use crate::types::*;
use serde_json::json;

pub enum H<F: Flav> {
    Node(F::Node),
    Graph(F::Graph, Vec<K>),
    Edge(F::Edge),
    Path(PathH<F>, Vec<K>),
    Nodes(Vec<F::Node>),
    Edges(Vec<F::Edge>),
    /// a deserialised copy of the graph: its own node objects and payload instances
    Copy(F::Graph),
}

impl<F: Flav> H<F> {
    fn mentions(&self) -> Vec<K> {
        match self {
            H::Node(n) => vec![F::key(n)],
            H::Graph(_, ks) => ks.clone(),
            H::Edge(e) => vec![F::key(F::e_src(e)), F::key(F::e_dst(e))],
            H::Path(_, ks) => ks.clone(),
            H::Nodes(v) => v.iter().map(|n| F::key(n)).collect(),
            H::Edges(v) => v.iter().flat_map(|e| [F::key(F::e_src(e)), F::key(F::e_dst(e))]).collect(),
            H::Copy(_) => vec![],
        }
    }
    fn kind(&self) -> &'static str {
        match self {
            H::Node(_) => "node",
            H::Graph(..) => "container",
            H::Edge(_) => "edge",
            H::Path(..) => "path",
            H::Nodes(_) => "search_nodes result",
            H::Edges(_) => "search_edges result",
            H::Copy(_) => "deserialised copy",
        }
    }
    /// Reads key and value of every node the handle mentions; returns
    /// (key, inst) pairs.  Must work as long as the handle is alive.
    fn read(&self) -> Vec<(K, u64)> {
        let rd = |n: &F::Node| (F::key(n), F::val(n).inst);
        match self {
            H::Node(n) => {
                let _ = F::out_degree(n);
                vec![rd(n)]
            }
            H::Graph(g, _) => F::g_to_vec(g).iter().map(rd).collect(),
            H::Edge(e) => vec![rd(F::e_src(e)), rd(F::e_dst(e))],
            H::Path(p, _) => p.to_vec_nodes().iter().map(rd).collect(),
            H::Nodes(v) => v.iter().map(rd).collect(),
            H::Edges(v) => v.iter().flat_map(|e| [rd(F::e_src(e)), rd(F::e_dst(e))]).collect(),
            H::Copy(g) => {
                // readable, but its payloads are its own
                let _ = F::g_to_vec(g).iter().map(rd).count();
                vec![]
            }
        }
    }
}

#[derive(Clone, Debug)]
pub struct Scenario {
    pub n: usize,
    pub edges: Vec<(K, K)>,
    /// ops applied after connecting (disconnect / isolate), as seq ops
    pub post: Vec<Op>,
    /// which extra handles to take (bit set): 0 container, 1 edge, 2 path, 3 cycle, 4 preorder nodes, 5 postorder edges, 6 clone, 7 found node; bit 8: neighbour lookups from both ends before the drops
    pub extras: u32,
    /// permutation of handle indices = drop order
    pub order: Vec<usize>,
}

fn take_handles<F: Flav>(w: &World<F>, extras: u32) -> Vec<H<F>> {
    let mut hs: Vec<H<F>> = vec![];
    let n = w.n();
    if extras & 1 != 0 {
        let mut g = F::g_new();
        for x in &w.nodes {
            F::g_insert(&mut g, x.clone());
        }
        hs.push(H::Graph(g, (0..n as K).collect()));
    }
    if extras & 2 != 0 {
        'o: for x in &w.nodes {
            for e in F::iter_out(x) {
                hs.push(H::Edge(e));
                break 'o;
            }
        }
    }
    if extras & 4 != 0 {
        'p: for r in 0..n {
            for t in 0..n as K {
                if t as usize == r {
                    continue;
                }
                let mut cfg = Cfg::new(Algo::Bfs, Mode::Path);
                cfg.target = Some(t);
                if let Out::Path(Some(p)) = F::search(&w.nodes[r], &cfg, None) {
                    let ks = p.to_vec_nodes().iter().map(|x| F::key(x)).collect();
                    hs.push(H::Path(p, ks));
                    break 'p;
                }
            }
        }
    }
    if extras & 8 != 0 {
        for r in 0..n {
            let cfg = Cfg::new(Algo::Dfs, Mode::Cycle);
            if let Out::Path(Some(p)) = F::search(&w.nodes[r], &cfg, None) {
                let ks = p.to_vec_nodes().iter().map(|x| F::key(x)).collect();
                hs.push(H::Path(p, ks));
                break;
            }
        }
    }
    if extras & 16 != 0 {
        if let Out::Nodes(v) = F::search(&w.nodes[0], &Cfg::new(Algo::Pre, Mode::Nodes), None) {
            hs.push(H::Nodes(v));
        }
    }
    if extras & 32 != 0 {
        if let Out::Edges(v) = F::search(&w.nodes[n - 1], &Cfg::new(Algo::Post, Mode::Edges), None) {
            if !v.is_empty() {
                hs.push(H::Edges(v));
            }
        }
    }
    if extras & 64 != 0 {
        hs.push(H::Node(w.nodes[0].clone()));
    }
    if extras & 128 != 0 {
        for r in 0..n {
            for t in 0..n as K {
                if t as usize != r {
                    let mut cfg = Cfg::new(Algo::PfsMin, Mode::Search);
                    cfg.target = Some(t);
                    if let Out::Node(Some(h)) = F::search(&w.nodes[r], &cfg, None) {
                        hs.push(H::Node(h));
                        return hs;
                    }
                }
            }
        }
    }
    hs
}

/// Runs one scenario; returns discrepancies.
pub fn run_scenario<F: Flav>(sc: &Scenario, rep: &mut Report) -> Vec<String> {
    let mut msgs = vec![];
    let mut w = World::<F>::new(sc.n);
    let reg = w.reg.clone();
    let insts = w.insts.clone();
    for (a, b) in &sc.edges {
        let e = w.fresh();
        F::connect(&w.nodes[*a as usize], &w.nodes[*b as usize], e);
    }
    for op in &sc.post {
        let _ = exec::<F>(&mut w, *op, (0, 0));
    }
    if sc.extras & 256 != 0 {
        // lookups from both ends of every pair (and refused try_connects) before anything is dropped:
        // a lookup must not leave anything behind that keeps a node alive
        for a in 0..sc.n {
            for b in 0..sc.n as K {
                let na = &w.nodes[a];
                let c = F::is_connected(na, &b);
                let _ = (F::find_out(na, &b).is_some(), F::find_in(na, &b).is_some());
                if c {
                    let _ = F::try_connect(na, &w.nodes[b as usize], Eid { id: 9_000_000, val: 0 });
                }
            }
        }
        rep.count("scenarios_with_lookups_before_drop");
    }
    if sc.extras & 512 != 0 {
        // a history of searches of every kind (found and absent targets, transposed, cycles, orderings):
        // whatever scratch state a search leaves behind must not keep nodes alive
        let absent = sc.n as K + 5;
        for r in 0..sc.n {
            for algo in [Algo::Bfs, Algo::Dfs, Algo::PfsMin, Algo::PfsMax] {
                for tr in [false, true] {
                    if tr && !F::DIRECTED {
                        continue;
                    }
                    for (mode, target) in [(Mode::Path, Some(absent)), (Mode::Search, Some(((r + 1) % sc.n) as K)), (Mode::Cycle, None), (Mode::Path, Some(((r + sc.n - 1) % sc.n) as K))] {
                        let mut cfg = Cfg::new(algo, mode);
                        cfg.transpose = tr;
                        cfg.target = target;
                        let _ = F::search(&w.nodes[r], &cfg, None);
                    }
                }
            }
            for algo in [Algo::Pre, Algo::Post] {
                let _ = F::search(&w.nodes[r], &Cfg::new(algo, Mode::Nodes), None);
                let _ = F::search(&w.nodes[r], &Cfg::new(algo, Mode::Edges), None);
            }
        }
        rep.count("scenarios_with_search_history_before_drop");
    }
    // what every node lists before anything is dropped: must stay so while all original handles live
    let expected: Option<Vec<EL>> = observe::<F>(&w).ok().map(|o| o.n.iter().map(|x| x.out.clone()).collect());
    let mut hs: Vec<Option<H<F>>> = take_handles::<F>(&w, sc.extras).into_iter().map(Some).collect();
    if sc.extras & 1024 != 0 {
        // container entry points: scc, DOT exports, a serialisation round trip whose result is one more handle
        let mut g = F::g_new();
        for x in &w.nodes {
            F::g_insert(&mut g, x.clone());
        }
        let _ = F::g_scc(&g);
        let _ = F::g_to_dot(&g);
        let _ = F::g_to_dot_attr(&g, &|| None, &|_| Some(vec![("a".to_string(), "b".to_string())]), &|_, _, _| None);
        let _ = (F::g_roots(&g), F::g_leaves(&g), F::g_orphans(&g));
        set_cur_reg(Some(w.reg.clone()));
        if let Ok(txt) = F::ser_json(&g) {
            if let Ok(g2) = F::de_json(&txt) {
                // the copy's nodes are new payload instances of the same registry: they must be released too
                hs.push(Some(H::Copy(g2)));
            }
        }
        if let Ok(b) = F::ser_cbor(&g) {
            if let Ok(g3) = F::de_cbor(&b) {
                drop(g3);
            }
        }
        set_cur_reg(None);
        rep.count("scenarios_with_container_api_and_serde_history");
    }
    let n_orig = w.n();
    // the original handles are handles too
    let World { nodes, .. } = w;
    for x in nodes {
        hs.push(Some(H::Node(x)));
    }
    rep.add("handles_taken", hs.len() as u64);
    for h in hs.iter().flatten() {
        rep.count(&format!("handle.{}", h.kind()));
    }
    let order: Vec<usize> = sc.order.iter().copied().filter(|i| *i < hs.len()).collect();
    let mut rest: Vec<usize> = (0..hs.len()).filter(|i| !order.contains(i)).collect();
    let mut full = order;
    full.append(&mut rest);
    let mut poked = false;
    for (step, hi) in full.iter().enumerate() {
        // drop one handle
        let h = hs[*hi].take();
        let kind = h.as_ref().map(|x| x.kind()).unwrap_or("?");
        if let Err(p) = catch(|| drop(h)) {
            msgs.push(format!("dropping a {} panicked: {}", kind, p));
        }
        rep.count("drop_steps");
        // every node still mentioned by a live handle must be alive, with its own payload, and readable
        for (oi, other) in hs.iter().enumerate() {
            let Some(o) = other else { continue };
            for k in o.mentions() {
                if reg.drop_count(insts[k as usize]) != 0 {
                    msgs.push(format!(
                        "payload of node {} was released after dropping a {} (step {}) while a {} (handle #{}) still mentions the node",
                        k,
                        kind,
                        step,
                        o.kind(),
                        oi
                    ));
                }
            }
            match catch(|| o.read()) {
                Err(p) => msgs.push(format!("a {} kept alive is no longer readable after dropping a {}: {}", o.kind(), kind, p)),
                Ok(pairs) => {
                    for (k, inst) in pairs {
                        if insts[k as usize] != inst {
                            msgs.push(format!("a {} hands out a different payload for node {}", o.kind(), k));
                        }
                    }
                    rep.count("reads_through_surviving_handles");
                }
            }
        }
        // once some nodes are gone, survivors may still list them.  Touching such an entry may fail (the library
        // panics on a dangling neighbour), but it must never hand out a node whose value has already been released
        {
            let total = hs.len();
            let some_orig_gone = hs[total - n_orig..].iter().any(|h| h.is_none());
            // (a panic costs ~0.2 s under Miri: there the survivors are poked after the first partial drop only)
            if some_orig_gone && !(cfg!(miri) && poked) {
                poked = true;
                for other in hs.iter().flatten() {
                    let H::Node(nd) = other else { continue };
                    let me = F::key(nd);
                    let released = |k: K| insts.get(k as usize).map(|i| reg.drop_count(*i) != 0).unwrap_or(false);
                    let mut bad: Vec<K> = vec![];
                    for dir in 0..2 {
                        if let Ok(es) = catch(|| if dir == 0 { F::iter_out(nd) } else { F::iter_in(nd) }) {
                            for e in es {
                                let ks = [F::key(F::e_src(&e)), F::key(F::e_dst(&e))];
                                if ks.iter().any(|k| released(*k)) {
                                    bad.extend(ks.iter().filter(|k| released(**k)));
                                    // never run the destructor of a handle to a released value
                                    std::mem::forget(e);
                                }
                            }
                        }
                    }
                    for k in 0..n_orig as K {
                        for dir in 0..2 {
                            if let Ok(Some(h)) = catch(|| if dir == 0 { F::find_out(nd, &k) } else { F::find_in(nd, &k) }) {
                                if released(F::key(&h)) {
                                    bad.push(F::key(&h));
                                    std::mem::forget(h);
                                }
                            }
                        }
                    }
                    rep.count("pokes_of_survivors_after_partial_drop");
                    if !bad.is_empty() {
                        bad.sort();
                        bad.dedup();
                        msgs.push(format!(
                            "after dropping a {} (step {}), live node {} hands out node(s) {:?} whose value was already released",
                            kind, step, me, bad
                        ));
                    }
                }
            }
        }
        // as long as every original node handle is alive the adjacency must be what it was
        if let Some(exp) = &expected {
            let total = hs.len();
            let origs: Vec<&H<F>> = hs[total - n_orig..].iter().flatten().collect();
            if origs.len() == n_orig {
                for (k, h) in origs.iter().enumerate() {
                    if let H::Node(nd) = h {
                        match catch(|| F::iter_out(nd).iter().map(|e| (F::key(F::e_dst(e)), *F::e_val(e))).collect::<EL>()) {
                            Ok(l) => {
                                if l != exp[k] {
                                    msgs.push(format!("after dropping a {} node {} lists {:?}, before the drops {:?}", kind, k, l.iter().map(|(p, e)| (*p, e.id)).collect::<Vec<_>>(), exp[k].iter().map(|(p, e)| (*p, e.id)).collect::<Vec<_>>()));
                                }
                            }
                            Err(p) => msgs.push(format!("after dropping a {} the edges of live node {} cannot be iterated although all nodes are alive: {}", kind, k, p)),
                        }
                    }
                }
                rep.count("adjacency_rechecks_while_all_nodes_alive");
            }
        }
        if !msgs.is_empty() {
            return msgs;
        }
    }
    // everything is dropped now
    let live = reg.live();
    if live != 0 {
        msgs.push(format!("{} node value(s) still alive after all handles were dropped (leak)", live));
    }
    let (never, multi) = reg.audit();
    if !never.is_empty() {
        msgs.push(format!("payload instances never released: {:?}", never));
    }
    if !multi.is_empty() {
        msgs.push(format!("payload instances released more than once: {:?}", multi));
    }
    msgs
}

fn decode(n: usize, ne: usize, mut idx: u64) -> Vec<(K, K)> {
    let base = (n * n) as u64;
    let mut v = vec![];
    for _ in 0..ne {
        let p = idx % base;
        idx /= base;
        v.push(((p / n as u64) as K, (p % n as u64) as K));
    }
    v
}

fn permutations(n: usize) -> Vec<Vec<usize>> {
    fn go(cur: &mut Vec<usize>, used: &mut Vec<bool>, n: usize, out: &mut Vec<Vec<usize>>) {
        if cur.len() == n {
            out.push(cur.clone());
            return;
        }
        for i in 0..n {
            if !used[i] {
                used[i] = true;
                cur.push(i);
                go(cur, used, n, out);
                cur.pop();
                used[i] = false;
            }
        }
    }
    let mut out = vec![];
    go(&mut vec![], &mut vec![false; n], n, &mut out);
    out
}

fn report<F: Flav>(rep: &mut Report, sc: &Scenario, msgs: &[String]) {
    let cls: String = msgs[0].chars().filter(|c| !c.is_ascii_digit()).take(60).collect();
    rep.violation(
        "C19",
        format!("{}|{}", F::NAME, cls),
        format!("[{}] n={} connects={:?} then {} extras={:#b} drop order {:?}: {}", F::NAME, sc.n, sc.edges, hist_str(&sc.post), sc.extras, sc.order, msgs.join("; ")),
        json!({"kind":"leak","prop":"C19","flavour":F::NAME,"n":sc.n,"connects":sc.edges,"post":hist_str(&sc.post),"extras":sc.extras,"order":sc.order}),
    );
}

pub fn run<F: Flav>(rep: &mut Report, max_n: usize, max_e: usize, random: u64, shard: u64, nshards: u64, rng: &mut Rng) {
    let mut idx = 0u64;
    let extras_sets: [u32; 16] = [0, 1, 2, 4, 8, 16 | 32, 1 | 2, 2 | 4 | 8, 64 | 128, 255, 256, 256 | 1 | 2 | 128, 512, 512 | 256 | 1, 1024, 1024 | 512 | 2 | 4];
    for n in 1..=max_n {
        for ne in 0..=max_e {
            let total = ((n * n) as u64).pow(ne as u32);
            for gi in 0..total {
                let edges = decode(n, ne, gi);
                for (xi, extras) in extras_sets.iter().enumerate() {
                    idx += 1;
                    if idx % nshards != shard {
                        continue;
                    }
                    // number of handles is not known before building: probe once
                    let probe = {
                        let mut w = World::<F>::new(n);
                        for (a, b) in &edges {
                            let e = w.fresh();
                            F::connect(&w.nodes[*a as usize], &w.nodes[*b as usize], e);
                        }
                        take_handles::<F>(&w, *extras).len() + n
                    };
                    let perms: Vec<Vec<usize>> = if probe <= 4 {
                        permutations(probe)
                    } else {
                        let mut v = vec![];
                        for _ in 0..12 {
                            let mut p: Vec<usize> = (0..probe).collect();
                            rng.shuffle(&mut p);
                            v.push(p);
                        }
                        // originals first / originals last
                        v.push((0..probe).rev().collect());
                        v.push((0..probe).collect());
                        v
                    };
                    for order in perms {
                        let sc = Scenario {
                            n,
                            edges: edges.clone(),
                            post: vec![],
                            extras: *extras,
                            order,
                        };
                        rep.count("evaluations");
                        rep.count("scenarios");
                        if !edges.is_empty() || *extras != 0 {
                            rep.distinct(fnv_str(&format!("{}|{:?}|{}|{:?}", F::NAME, sc.edges, sc.extras, sc.order)));
                        }
                        if edges.iter().any(|(a, b)| a == b) {
                            rep.count("scenarios_with_selfloop");
                        }
                        if rep.samples.len() < 2 && xi == 7 && ne >= 2 && gi % 5 == 3 {
                            rep.sample(json!({"flavour":F::NAME,"n":n,"connects":sc.edges,"extra_handles_bits":sc.extras,"drop_order":sc.order}));
                        }
                        let m = run_scenario::<F>(&sc, rep);
                        if !m.is_empty() {
                            report::<F>(rep, &sc, &m);
                            if rep.total_violations() > 100 {
                                return;
                            }
                        }
                    }
                }
            }
        }
    }
    rep.count("enumerations_completed");
    // random: larger structures with removal ops before the drops
    for _ in 0..random {
        let n = 2 + rng.below(7);
        let ne = if rng.chance(1, 2) { rng.below(3 * n) } else { rng.below(8 * n) };
        let edges: Vec<(K, K)> = (0..ne).map(|_| (rng.below(n) as K, rng.below(n) as K)).collect();
        let mut post = vec![];
        for _ in 0..rng.below(6) {
            let a = rng.below(n) as K;
            let b = rng.below(n) as K;
            post.push(if rng.chance(1, 4) { Op::Isolate(a) } else { Op::Disconnect(a, b) });
        }
        let extras = rng.below(2048) as u32;
        let mut order: Vec<usize> = (0..n + 8).collect();
        rng.shuffle(&mut order);
        let sc = Scenario { n, edges, post, extras, order };
        rep.count("evaluations");
        rep.count("random_scenarios");
        rep.distinct(fnv_str(&format!("{}|{:?}|{:?}|{}|{:?}", F::NAME, sc.edges, sc.post, sc.extras, sc.order)));
        let m = run_scenario::<F>(&sc, rep);
        if !m.is_empty() {
            report::<F>(rep, &sc, &m);
        }
    }
}

pub fn replay<F: Flav>(v: &serde_json::Value) -> bool {
    let sc = Scenario {
        n: v["n"].as_u64().unwrap_or(2) as usize,
        edges: v["connects"].as_array().map(|a| a.iter().map(|x| (x[0].as_u64().unwrap_or(0) as K, x[1].as_u64().unwrap_or(0) as K)).collect()).unwrap_or_default(),
        post: parse_hist(v["post"].as_str().unwrap_or("")),
        extras: v["extras"].as_u64().unwrap_or(0) as u32,
        order: v["order"].as_array().map(|a| a.iter().map(|x| x.as_u64().unwrap_or(0) as usize).collect()).unwrap_or_default(),
    };
    let mut rep = Report::new();
    let m = run_scenario::<F>(&sc, &mut rep);
    for x in &m {
        println!("DISCREPANCY: {}", x);
    }
    !m.is_empty()
}
