//! Payload types used by all workloads, PRNG, and small helpers.

use serde::{Deserialize, Deserializer, Serialize, Serializer};
use std::cell::RefCell;
use std::fmt;
use std::sync::atomic::{AtomicI64, AtomicU64, Ordering as AO};
use std::sync::{Arc, Mutex};

pub type K = u32;

/// Edge value: every connect call of a workload gets a fresh `id`, so a
/// yielded / removed / returned edge identifies the call that created it.
#[derive(Clone, Copy, Debug, PartialEq, Eq, Hash, PartialOrd, Ord)]
pub struct Eid {
    pub id: u32,
    pub val: i32,
}

impl fmt::Display for Eid {
    fn fmt(&self, f: &mut fmt::Formatter) -> fmt::Result {
        write!(f, "e{}:{}", self.id, self.val)
    }
}

impl Serialize for Eid {
    fn serialize<S: Serializer>(&self, s: S) -> Result<S::Ok, S::Error> {
        (self.id, self.val).serialize(s)
    }
}

impl<'de> Deserialize<'de> for Eid {
    fn deserialize<D: Deserializer<'de>>(d: D) -> Result<Self, D::Error> {
        let (id, val) = <(u32, i32)>::deserialize(d)?;
        Ok(Eid { id, val })
    }
}

/// Drop / clone accounting for node payloads.  Keeps counters only, never an
/// address, so it cannot hide a leak from Miri or memcheck.
pub struct Registry {
    next: AtomicU64,
    pub live: AtomicI64,
    /// drops[inst] = number of times instance `inst` was dropped.
    drops: Mutex<Vec<u8>>,
    pub clones: AtomicU64,
}

impl Registry {
    pub fn new() -> Arc<Registry> {
        Arc::new(Registry {
            next: AtomicU64::new(0),
            live: AtomicI64::new(0),
            drops: Mutex::new(Vec::new()),
            clones: AtomicU64::new(0),
        })
    }

    pub fn mk(self: &Arc<Self>, prio: i32) -> Payload {
        let inst = self.next.fetch_add(1, AO::SeqCst);
        self.live.fetch_add(1, AO::SeqCst);
        let mut d = self.drops.lock().unwrap_or_else(|e| e.into_inner());
        if d.len() <= inst as usize {
            d.resize(inst as usize + 1, 0);
        }
        Payload {
            inst,
            prio,
            reg: Some(self.clone()),
        }
    }

    pub fn live(&self) -> i64 {
        self.live.load(AO::SeqCst)
    }

    pub fn created(&self) -> u64 {
        self.next.load(AO::SeqCst)
    }

    pub fn drop_count(&self, inst: u64) -> u8 {
        let d = self.drops.lock().unwrap_or_else(|e| e.into_inner());
        d.get(inst as usize).copied().unwrap_or(0)
    }

    /// (instances never dropped, instances dropped more than once)
    pub fn audit(&self) -> (Vec<u64>, Vec<u64>) {
        let d = self.drops.lock().unwrap_or_else(|e| e.into_inner());
        let mut never = vec![];
        let mut multi = vec![];
        for (i, c) in d.iter().enumerate() {
            if *c == 0 {
                never.push(i as u64)
            }
            if *c > 1 {
                multi.push(i as u64)
            }
        }
        (never, multi)
    }
}

thread_local! {
    /// Registry used for payloads created by deserialisation on this thread.
    pub static CUR_REG: RefCell<Option<Arc<Registry>>> = RefCell::new(None);
}

pub fn set_cur_reg(r: Option<Arc<Registry>>) {
    CUR_REG.with(|c| *c.borrow_mut() = r);
}

/// Node value.  `prio` is what nodes are ordered by (Pfs); `inst` identifies
/// the instance (a clone is a new instance).
pub struct Payload {
    pub inst: u64,
    pub prio: i32,
    pub reg: Option<Arc<Registry>>,
}

impl Clone for Payload {
    fn clone(&self) -> Self {
        match &self.reg {
            Some(r) => {
                r.clones.fetch_add(1, AO::SeqCst);
                r.mk(self.prio)
            }
            None => Payload {
                inst: self.inst,
                prio: self.prio,
                reg: None,
            },
        }
    }
}

impl Drop for Payload {
    fn drop(&mut self) {
        if let Some(r) = &self.reg {
            r.live.fetch_sub(1, AO::SeqCst);
            let mut d = r.drops.lock().unwrap_or_else(|e| e.into_inner());
            if let Some(c) = d.get_mut(self.inst as usize) {
                *c = c.saturating_add(1);
            }
        }
    }
}

impl PartialEq for Payload {
    fn eq(&self, o: &Self) -> bool {
        self.prio == o.prio
    }
}
impl Eq for Payload {}
impl PartialOrd for Payload {
    fn partial_cmp(&self, o: &Self) -> Option<std::cmp::Ordering> {
        Some(self.prio.cmp(&o.prio))
    }
}
impl Ord for Payload {
    fn cmp(&self, o: &Self) -> std::cmp::Ordering {
        self.prio.cmp(&o.prio)
    }
}
impl fmt::Display for Payload {
    fn fmt(&self, f: &mut fmt::Formatter) -> fmt::Result {
        write!(f, "p{}", self.prio)
    }
}
impl fmt::Debug for Payload {
    fn fmt(&self, f: &mut fmt::Formatter) -> fmt::Result {
        write!(f, "P(inst={},prio={})", self.inst, self.prio)
    }
}

impl Serialize for Payload {
    fn serialize<S: Serializer>(&self, s: S) -> Result<S::Ok, S::Error> {
        self.prio.serialize(s)
    }
}

impl<'de> Deserialize<'de> for Payload {
    fn deserialize<D: Deserializer<'de>>(d: D) -> Result<Self, D::Error> {
        let prio = i32::deserialize(d)?;
        let reg = CUR_REG.with(|c| c.borrow().clone());
        Ok(match reg {
            Some(r) => r.mk(prio),
            None => Payload {
                inst: u64::MAX,
                prio,
                reg: None,
            },
        })
    }
}

/// SplitMix64; all randomness of the harness comes from here (seeded from
/// VERIF_SEED), never from the OS.
#[derive(Clone)]
pub struct Rng(pub u64);

impl Rng {
    pub fn new(seed: u64) -> Rng {
        Rng(seed ^ 0x9E37_79B9_7F4A_7C15)
    }
    pub fn next(&mut self) -> u64 {
        self.0 = self.0.wrapping_add(0x9E37_79B9_7F4A_7C15);
        let mut z = self.0;
        z = (z ^ (z >> 30)).wrapping_mul(0xBF58_476D_1CE4_E5B9);
        z = (z ^ (z >> 27)).wrapping_mul(0x94D0_49BB_1331_11EB);
        z ^ (z >> 31)
    }
    pub fn below(&mut self, n: usize) -> usize {
        if n == 0 {
            0
        } else {
            (self.next() % n as u64) as usize
        }
    }
    pub fn chance(&mut self, num: u32, den: u32) -> bool {
        (self.next() % den as u64) < num as u64
    }
    pub fn pick<'a, T>(&mut self, v: &'a [T]) -> &'a T {
        &v[self.below(v.len())]
    }
    pub fn shuffle<T>(&mut self, v: &mut [T]) {
        for i in (1..v.len()).rev() {
            let j = self.below(i + 1);
            v.swap(i, j);
        }
    }
    pub fn fork(&mut self) -> Rng {
        Rng(self.next())
    }
}

/// FNV-1a 64 for canonical hashes of cases (distinct counting).
pub fn fnv(bytes: &[u8]) -> u64 {
    let mut h: u64 = 0xcbf29ce484222325;
    for b in bytes {
        h ^= *b as u64;
        h = h.wrapping_mul(0x100000001b3);
    }
    h
}

pub fn fnv_str(s: &str) -> u64 {
    fnv(s.as_bytes())
}

static GLOBAL_EID: AtomicU64 = AtomicU64::new(1);
pub fn fresh_eid_global(val: i32) -> Eid {
    Eid {
        id: GLOBAL_EID.fetch_add(1, AO::SeqCst) as u32,
        val,
    }
}
