//! C15: sync flavours as drop-in replacements in single-threaded code.
//! Generated programs over the API common to both flavours are run on the
//! plain and the sync flavour side by side; transcripts must be equal.

use crate::core::*;
use crate::flav::*;
use crate::model::Model;
use crate::report::*;
use crate::search::{run_search, PlainOut, Pred};
use crate::types::*;
use serde_json::{json, Value};

#[derive(Clone, Debug)]
pub enum Call {
    Edge(Op, (u32, u32)),
    Query(K),
    Iter(K, u8),
    Search(K, Cfg, Pred),
    GInsert(K),
    GRemove(K),
    GGet(K),
    GViews,
    Scc,
    Json,
    Cbor,
    Dot,
    DotAttr(u8),
    EdgeEq(K, K),
    NodeCmp(K, K),
    /// deserialise this JSON document (fixed text: nothing depends on hash order, error texts included)
    DeDoc(String),
}

#[derive(Clone, Debug)]
pub struct Program {
    pub n: usize,
    pub prios: Vec<i32>,
    pub calls: Vec<Call>,
}

fn canon_doc(v: &Value, directed: bool) -> String {
    let mut nodes: Vec<String> = v.get(0).and_then(|x| x.as_array()).map(|a| a.iter().map(|x| x.to_string()).collect()).unwrap_or_default();
    nodes.sort();
    let edges: Vec<Value> = v.get(1).and_then(|x| x.as_array()).cloned().unwrap_or_default();
    let mut es: Vec<(String, usize, String)> = edges
        .iter()
        .enumerate()
        .map(|(i, e)| (e.get(0).map(|x| x.to_string()).unwrap_or_default(), if directed { i } else { 0 }, e.to_string()))
        .collect();
    if directed {
        // grouped by source, order inside a source preserved
        es.sort_by(|a, b| (a.0.clone(), a.1).cmp(&(b.0.clone(), b.1)));
    } else {
        // an undirected edge may be written from either end
        es = es
            .into_iter()
            .map(|(_, _, t)| {
                let v: Value = serde_json::from_str(&t).unwrap_or(Value::Null);
                let (a, b) = (v.get(0).cloned().unwrap_or(Value::Null).to_string(), v.get(1).cloned().unwrap_or(Value::Null).to_string());
                let (lo, hi) = if a <= b { (a, b) } else { (b, a) };
                (String::new(), 0, format!("{}~{}:{}", lo, hi, v.get(2).cloned().unwrap_or(Value::Null)))
            })
            .collect();
        es.sort();
    }
    format!("nodes={:?} edges={:?}", nodes, es.iter().map(|x| x.2.clone()).collect::<Vec<_>>())
}

fn cbor_to_json(v: &serde_cbor::Value) -> Value {
    use serde_cbor::Value as C;
    match v {
        C::Integer(i) => json!(*i as i64),
        C::Array(a) => Value::Array(a.iter().map(cbor_to_json).collect()),
        C::Text(s) => json!(s),
        C::Null => Value::Null,
        C::Bool(b) => json!(b),
        _ => json!("?"),
    }
}

fn keys_sorted<F: Flav>(v: &[F::Node]) -> Vec<K> {
    let mut k: Vec<K> = v.iter().map(|n| F::key(n)).collect();
    k.sort();
    k
}

/// Executes the program; one transcript line per call.
pub fn run_program<F: Flav>(p: &Program) -> Vec<String> {
    let mut w = World::<F>::with_prios(&p.prios);
    let mut g = F::g_new();
    let mut t: Vec<String> = vec![];
    set_cur_reg(Some(w.reg.clone()));
    for c in &p.calls {
        let line = match c {
            Call::Edge(op, prov) => {
                let (res, _, _) = exec::<F>(&mut w, *op, *prov);
                format!("{} -> {:?}", op.short(), match res {
                    Res::Panic(m) => Res::Panic(panic_class(&m).replace("sync_", "")),
                    r => r,
                })
            }
            Call::Query(k) => {
                let n = &w.nodes[*k as usize];
                let r = catch(|| {
                    let conn: Vec<(bool, bool, bool)> = (0..=w.n() as K).map(|x| (F::is_connected(n, &x), F::find_out(n, &x).is_some(), F::find_in(n, &x).is_some())).collect();
                    format!(
                        "deg {}/{} root {:?} leaf {:?} orphan {} conn {:?} key {} val {}",
                        F::out_degree(n),
                        F::in_degree(n),
                        F::is_root(n),
                        F::is_leaf(n),
                        F::is_orphan(n),
                        conn,
                        F::key(n),
                        F::val(n).prio
                    )
                });
                format!("query {} -> {:?}", k, r.map_err(|e| panic_class(&e).replace("sync_", "")))
            }
            Call::Iter(k, which) => {
                let n = &w.nodes[*k as usize];
                let r = catch(|| {
                    let es = match which {
                        0 => F::iter_out(n),
                        1 => F::iter_in(n),
                        _ => F::iter_into(n),
                    };
                    es.iter().map(|e| F::e_acc(e)).map(|(a, b, e)| (a, b, e.id, e.val)).collect::<Vec<_>>()
                });
                format!("iter{} {} -> {:?}", which, k, r.map_err(|e| panic_class(&e).replace("sync_", "")))
            }
            Call::Search(root, cfg, pred) => {
                let r = run_search::<F>(&w, *root, cfg, pred);
                let out = match &r.out {
                    Ok(PlainOut::Node(n)) => format!("node {:?}", n),
                    Ok(PlainOut::Path(None)) => "none".to_string(),
                    Ok(PlainOut::Path(Some(p))) => format!("path {:?} nodes {:?} len {}", p.edges.iter().map(|e| (e.0, e.1, e.2.id, e.2.val)).collect::<Vec<_>>(), p.nodes, p.len),
                    Ok(PlainOut::Nodes(v)) => format!("nodes {:?}", v),
                    Ok(PlainOut::Edges(v)) => format!("edges {:?}", v.iter().map(|e| (e.0, e.1, e.2.id)).collect::<Vec<_>>()),
                    Err(e) => format!("panic {}", panic_class(e).replace("sync_", "")),
                };
                format!("search {} from {} {} -> {} log {:?} errs {:?}", cfg.short(), root, pred.short(), out, r.log.iter().map(|e| (e.0, e.1, e.2.id)).collect::<Vec<_>>(), r.errs)
            }
            Call::GInsert(k) => format!("g.insert {} -> {}", k, F::g_insert(&mut g, w.nodes[*k as usize].clone())),
            Call::GRemove(k) => format!("g.remove {} -> {:?}", k, F::g_remove(&mut g, k).map(|n| (F::key(&n), F::val(&n).prio))),
            Call::GGet(k) => format!(
                "g.get {} -> {:?} contains {} index {:?}",
                k,
                F::g_get(&g, k).map(|n| (F::key(&n), F::val(&n).prio)),
                F::g_contains(&g, k),
                if F::g_contains(&g, k) { Some(F::key(&F::g_index(&g, *k))) } else { None }
            ),
            Call::GViews => {
                let mut it: Vec<K> = F::g_iter(&g).iter().map(|(k, _)| *k).collect();
                it.sort();
                format!(
                    "g.views len {} empty {} to_vec {:?} iter {:?} roots {:?} leaves {:?} orphans {:?}",
                    F::g_len(&g),
                    F::g_is_empty(&g),
                    keys_sorted::<F>(&F::g_to_vec(&g)),
                    it,
                    F::g_roots(&g).map(|v| keys_sorted::<F>(&v)),
                    F::g_leaves(&g).map(|v| keys_sorted::<F>(&v)),
                    keys_sorted::<F>(&F::g_orphans(&g))
                )
            }
            Call::Scc => {
                // only when every neighbour of a member is a member (premise of scc)
                let members: Vec<K> = F::g_iter(&g).iter().map(|(k, _)| *k).collect();
                let closed = members.iter().all(|k| {
                    let n = &w.nodes[*k as usize];
                    F::iter_out(n).iter().all(|e| members.contains(&F::key(F::e_dst(e)))) && F::iter_in(n).iter().all(|e| members.contains(&F::key(F::e_src(e))))
                });
                if !closed || !F::DIRECTED {
                    "scc skipped".to_string()
                } else {
                    match catch(|| F::g_scc(&g)) {
                        Err(e) => format!("scc panic {}", panic_class(&e).replace("sync_", "")),
                        Ok(None) => "scc n/a".to_string(),
                        Ok(Some(cs)) => {
                            let mut sets: Vec<Vec<K>> = cs.iter().map(|c| keys_sorted::<F>(c)).collect();
                            sets.sort();
                            // compared only if it is the true partition of the members (C11 owns wrong partitions)
                            let o = observe::<F>(&w);
                            let right = match o {
                                Ok(o) => {
                                    let m = Model::from_obs(&o, true);
                                    let t = m.scc();
                                    let mut want: Vec<Vec<K>> = vec![];
                                    for k in &members {
                                        if !want.iter().any(|s| s.contains(k)) {
                                            let mut s: Vec<K> = members.iter().copied().filter(|j| t[*j as usize] == t[*k as usize]).collect();
                                            s.sort();
                                            want.push(s);
                                        }
                                    }
                                    want.sort();
                                    want == sets
                                }
                                Err(_) => false,
                            };
                            if right {
                                format!("scc {:?}", sets)
                            } else {
                                "scc <not the model partition: left to C11>".to_string()
                            }
                        }
                    }
                }
            }
            Call::Json => match catch(|| F::ser_json(&g)) {
                Ok(Ok(s)) => {
                    let v: Value = serde_json::from_str(&s).unwrap_or(Value::Null);
                    let back = catch(|| F::de_json(&s).map(|g2| F::g_len(&g2)));
                    // the text of a deserialisation error names the first offending edge in container order: compare its kind only
                    let back = back.map(|r| r.map_err(|_| "error")).map_err(|e| panic_class(&e).replace("sync_", ""));
                    format!("json {} reread {:?}", canon_doc(&v, F::DIRECTED), back)
                }
                Ok(Err(e)) => format!("json error {}", e),
                Err(e) => format!("json panic {}", panic_class(&e).replace("sync_", "")),
            },
            Call::Cbor => match catch(|| F::ser_cbor(&g)) {
                Ok(Ok(b)) => {
                    let v = serde_cbor::from_slice::<serde_cbor::Value>(&b).map(|c| cbor_to_json(&c)).unwrap_or(Value::Null);
                    format!("cbor {} bytes {}", canon_doc(&v, F::DIRECTED), b.len())
                }
                Ok(Err(e)) => format!("cbor error {}", e),
                Err(e) => format!("cbor panic {}", panic_class(&e).replace("sync_", "")),
            },
            Call::Dot => {
                let s = F::g_to_dot(&g);
                // node blocks in container order: canonicalise by sorting the blocks
                let mut blocks: Vec<Vec<String>> = vec![];
                for l in s.lines() {
                    let t = l.trim().to_string();
                    if t == "digraph {" || t == "}" || t.is_empty() {
                        continue;
                    }
                    if t.contains("->") {
                        if let Some(b) = blocks.last_mut() {
                            b.push(t);
                        }
                    } else {
                        blocks.push(vec![t]);
                    }
                }
                blocks.sort();
                format!("dot {:?}", blocks)
            }
            Call::DotAttr(mode) => {
                let mode = *mode;
                let ga = move || -> Attrs {
                    if mode % 2 == 0 {
                        None
                    } else {
                        Some(vec![("a".to_string(), "b".to_string())])
                    }
                };
                let na = move |n: &F::Node| -> Attrs {
                    if (mode / 2 + F::key(n) as u8) % 2 == 0 {
                        None
                    } else {
                        Some(vec![("label".to_string(), format!("{}", F::val(n).prio))])
                    }
                };
                let ea = move |_a: &F::Node, _b: &F::Node, e: &Eid| -> Attrs {
                    if (mode / 4 + e.id as u8) % 2 == 0 {
                        None
                    } else {
                        Some(vec![("w".to_string(), format!("{}", e.val))])
                    }
                };
                match F::g_to_dot_attr(&g, &ga, &na, &ea) {
                    None => "dot_attr n/a".to_string(),
                    Some(s) => {
                        let mut lines: Vec<String> = s.lines().map(|l| l.trim().to_string()).collect();
                        lines.sort();
                        format!("dot_attr {:?}", lines)
                    }
                }
            }
            Call::EdgeEq(a, b) => {
                // equality of edge values built from live nodes: same endpoints different value, etc.
                let (na, nb) = (&w.nodes[*a as usize], &w.nodes[*b as usize]);
                let e1 = F::mk_edge(na, nb, Eid { id: 1, val: 1 });
                let e2 = F::mk_edge(na, nb, Eid { id: 2, val: 2 });
                let e3 = F::mk_edge(nb, na, Eid { id: 1, val: 1 });
                let e4 = F::mk_edge(na, nb, Eid { id: 1, val: 1 });
                format!("edge_eq {} {} -> same endpoints other value {} | reversed {} | identical {}", a, b, F::e_eq(&e1, &e2), F::e_eq(&e1, &e3), F::e_eq(&e1, &e4))
            }
            Call::DeDoc(text) => {
                let r = catch(|| F::de_json(text));
                match r {
                    Err(p) => format!("de_doc -> panic {}", panic_class(&p).replace("sync_", "")),
                    Ok(Err(e)) => format!("de_doc -> error {}", e),
                    Ok(Ok(g2)) => {
                        let mut rows: Vec<String> = F::g_iter(&g2)
                            .iter()
                            .map(|(k, n)| {
                                let mut out: Vec<(K, u32, i32)> = F::iter_out(n).iter().map(|e| (F::key(F::e_dst(e)), F::e_val(e).id, F::e_val(e).val)).collect();
                                if !F::DIRECTED {
                                    out.sort();
                                }
                                format!("{}={} {:?}", k, F::val(n).prio, out)
                            })
                            .collect();
                        rows.sort();
                        format!("de_doc -> ok {:?}", rows)
                    }
                }
            }
            Call::NodeCmp(a, b) => {
                let (na, nb) = (&w.nodes[*a as usize], &w.nodes[*b as usize]);
                format!("node_cmp {} {} -> eq {} cmp {:?}", a, b, F::node_eq(na, nb), F::node_cmp(na, nb))
            }
        };
        t.push(line);
    }
    set_cur_reg(None);
    t
}

fn random_cfg(rng: &mut Rng, n: usize, directed: bool) -> Cfg {
    loop {
        let algo = *rng.pick(&[Algo::Bfs, Algo::Dfs, Algo::PfsMin, Algo::PfsMax, Algo::Pre, Algo::Post]);
        let mode = *rng.pick(&[Mode::Search, Mode::Path, Mode::Cycle, Mode::Nodes, Mode::Edges]);
        let mut c = Cfg::new(algo, mode);
        c.transpose = directed && rng.chance(1, 3);
        if rng.chance(2, 3) && !matches!(algo, Algo::Pre | Algo::Post) {
            c.target = Some(rng.below(n) as K);
        }
        c.meth = *rng.pick(&[Meth::None, Meth::ForEach, Meth::Filter]);
        if c.valid(directed) {
            return c;
        }
    }
}

pub fn random_program(rng: &mut Rng, directed: bool, len: usize) -> Program {
    let n = if rng.chance(1, 3) { 6 + rng.below(7) } else { 2 + rng.below(5) };
    let prios: Vec<i32> = (0..n).map(|_| rng.below(4) as i32).collect();
    let mut calls = vec![];
    let mut connects = 0u32;
    for _ in 0..len {
        let a = rng.below(n) as K;
        let b = if rng.chance(1, 7) { a } else { rng.below(n) as K };
        let c = match rng.below(100) {
            0..=24 => {
                connects += 1;
                Call::Edge(Op::Connect(a, b), (rng.below(16) as u32, rng.below(7) as u32))
            }
            25..=31 => {
                connects += 1;
                Call::Edge(Op::TryConnect(a, b), (rng.below(16) as u32, rng.below(7) as u32))
            }
            32..=41 => Call::Edge(Op::Disconnect(a, b), (rng.below(16) as u32, 0)),
            42..=44 => Call::Edge(Op::Isolate(a), (rng.below(16) as u32, 0)),
            45..=49 => Call::Query(a),
            50..=54 => Call::Iter(a, rng.below(3) as u8),
            55..=79 => {
                let cfg = random_cfg(rng, n, directed);
                let pred = if cfg.meth == Meth::Filter && connects > 0 {
                    Pred::Ids((0..connects).filter(|_| rng.chance(1, 4)).map(|i| i + 1).collect())
                } else {
                    Pred::All
                };
                Call::Search(a, cfg, pred)
            }
            80..=84 => Call::GInsert(a),
            85..=86 => Call::GRemove(a),
            87..=88 => Call::GGet(a),
            89..=90 => Call::GViews,
            91..=92 => Call::Scc,
            93..=94 => Call::Json,
            95 => Call::Cbor,
            96 => Call::Dot,
            // to_dot_with_attr is not part of the API common to ungraph and sync_ungraph
            97 if directed => Call::DotAttr(rng.below(8) as u8),
            97 => Call::Dot,
            98 if rng.chance(1, 2) => {
                // a document with its own node and edge lists; keys up to n+1 may be undeclared, repeated or missing
                let mut nodes = vec![];
                for k in 0..n {
                    if rng.chance(4, 5) {
                        nodes.push(format!("[{},{}]", k, rng.below(7)));
                    }
                    if rng.chance(1, 8) {
                        nodes.push(format!("[{},{}]", k, rng.below(7)));
                    }
                }
                let mut edges = vec![];
                for j in 0..rng.below(2 * n + 1) {
                    edges.push(format!("[{},{},[{},{}]]", rng.below(n + 2), rng.below(n + 2), j + 1, rng.below(5)));
                }
                Call::DeDoc(format!("[[{}],[{}]]", nodes.join(","), edges.join(",")))
            }
            98 => Call::EdgeEq(a, b),
            _ => Call::NodeCmp(a, b),
        };
        calls.push(c);
    }
    Program { n, prios, calls }
}

pub fn compare<A: Flav, B: Flav>(p: &Program, rep: &mut Report, origin: &str) {
    rep.count("programs");
    rep.add("evaluations", p.calls.len() as u64);
    let ta = run_program::<A>(p);
    let tb = run_program::<B>(p);
    rep.add("transcript_lines_compared", ta.len().min(tb.len()) as u64);
    for c in &p.calls {
        rep.count(match c {
            Call::Edge(..) => "calls.edge_op",
            Call::Query(..) | Call::Iter(..) => "calls.query_iter",
            Call::Search(..) => "calls.search",
            Call::GInsert(..) | Call::GRemove(..) | Call::GGet(..) | Call::GViews => "calls.container",
            Call::Scc => "calls.scc",
            Call::Json | Call::Cbor => "calls.serde",
            Call::Dot | Call::DotAttr(..) => "calls.dot",
            Call::EdgeEq(..) | Call::NodeCmp(..) => "calls.compare",
            Call::DeDoc(..) => "calls.deserialise_given_document",
        });
    }
    if let Some(i) = (0..ta.len().max(tb.len())).find(|i| ta.get(*i) != tb.get(*i)) {
        let cls = match &p.calls[i.min(p.calls.len() - 1)] {
            Call::Edge(op, _) => format!("edge op {}", op.name()),
            Call::Search(_, cfg, _) => format!("search {:?}.{:?}{}", cfg.algo, cfg.mode, if cfg.transpose { ".T" } else { "" }),
            other => format!("{:?}", other).chars().take_while(|c| c.is_alphabetic()).collect(),
        };
        rep.violation(
            "C15",
            format!("{} vs {}|{}", A::NAME, B::NAME, cls),
            format!(
                "[{} vs {}] {} program (n={}, prios={:?}) diverges at call #{} {:?}:\n      {}: {}\n      {}: {}",
                A::NAME,
                B::NAME,
                origin,
                p.n,
                p.prios,
                i,
                p.calls.get(i),
                A::NAME,
                ta.get(i).map(|s| s.chars().take(400).collect::<String>()).unwrap_or_default(),
                B::NAME,
                tb.get(i).map(|s| s.chars().take(400).collect::<String>()).unwrap_or_default()
            ),
            json!({"kind":"dropin","prop":"C15","flavour":A::NAME,"n":p.n,"prios":p.prios,"diverges_at":i,
                   "calls": p.calls[..=i.min(p.calls.len()-1)].iter().map(|c| format!("{:?}", c)).collect::<Vec<_>>()}),
        );
    }
}

pub fn run(rep: &mut Report, programs: u64, len: usize, rng: &mut Rng) {
    for i in 0..programs {
        let l = 50 + rng.below(len.saturating_sub(50) + 1);
        let pd = random_program(rng, true, l);
        rep.distinct(fnv_str(&format!("d|{:?}", pd.calls)));
        if i == 0 {
            rep.sample(json!({"directed_program_first_calls": pd.calls.iter().take(8).map(|c| format!("{:?}", c)).collect::<Vec<_>>(), "calls": pd.calls.len(), "nodes": pd.n}));
        }
        compare::<PlainDi, SyncDi>(&pd, rep, "random");
        let pu = random_program(rng, false, l);
        rep.distinct(fnv_str(&format!("u|{:?}", pu.calls)));
        compare::<PlainUn, SyncUn>(&pu, rep, "random");
        if rep.total_violations() > 60 {
            return;
        }
    }
}

/// Every enumerated (state, op) pair of the C03 enumeration, side by side.
pub fn run_enumerated<A: Flav, B: Flav>(rep: &mut Report, n: usize, max_edges: usize, shard: u64, nshards: u64) {
    let hists = crate::seq::enumerate_states::<A>(n, max_edges);
    let ops = crate::seq::all_ops(n);
    let mut idx = 0u64;
    for h in &hists {
        for op in &ops {
            idx += 1;
            if idx % nshards != shard {
                continue;
            }
            let mut calls: Vec<Call> = h.iter().map(|o| Call::Edge(*o, (0, 0))).collect();
            calls.push(Call::Edge(*op, ((idx % 16) as u32, (idx % 7) as u32)));
            for k in 0..n as K {
                calls.push(Call::Iter(k, 0));
                calls.push(Call::Iter(k, 1));
                calls.push(Call::Query(k));
            }
            let p = Program { n, prios: vec![0; n], calls };
            rep.count("enumerated_state_op_pairs");
            rep.distinct(fnv_str(&format!("{}|{}|{}", A::NAME, hist_str(h), op.short())));
            compare::<A, B>(&p, rep, "enumerated (state, op)");
            if rep.total_violations() > 60 {
                return;
            }
        }
    }
    rep.count("enumerations_completed");
}

/// Mutation from inside loops and closures, side by side on both flavours: the
/// sequence of yielded edges, the discrepancies and the final adjacency must agree.
pub fn run_mutating<A: Flav, B: Flav>(rep: &mut Report, cases: u64, rng: &mut Rng) {
    for i in 0..cases {
        let c = crate::mutate::random_case(rng, A::DIRECTED);
        let mut scratch = Report::new();
        let (ma, ya, fa) = crate::mutate::run_case_full::<A>(&c, &mut scratch);
        let (mb, yb, fb) = crate::mutate::run_case_full::<B>(&c, &mut scratch);
        rep.count("evaluations");
        rep.count("mutating_loop_programs");
        rep.distinct(fnv_str(&format!("mut|{}|{:?}|{:?}|{:?}|{}|{}", A::NAME, c.edges, c.lp, c.script, c.root, c.step)));
        if i == 0 {
            rep.sample(json!({"mutating_loop_program":{"connects":c.edges,"loop":format!("{:?}", c.lp),"script":format!("{:?}", c.script),"root":c.root,"step":c.step},"yields":ya.len()}));
        }
        let cls = |m: &Vec<String>| -> Vec<String> { m.iter().map(|x| x.chars().filter(|ch| !ch.is_ascii_digit()).take(40).collect::<String>().replace("sync_", "")).collect() };
        if ya != yb || fa != fb || cls(&ma) != cls(&mb) {
            rep.violation(
                "C15",
                format!("{} vs {}|mutating loop {:?}", A::NAME, B::NAME, match c.lp { crate::mutate::Loop::Iter(k) => format!("iter{}", k), crate::mutate::Loop::Trav { algo, .. } => format!("{:?}", algo) }),
                format!(
                    "[{} vs {}] graph connects={:?} (n={}), loop {:?} from {}, script {:?} fired at step {}{}:\n      {} yields {:?} -> {} {:?}\n      {} yields {:?} -> {} {:?}",
                    A::NAME, B::NAME, c.edges, c.n, c.lp, c.root, c.script, c.step, if c.fire_every { "+" } else { "" },
                    A::NAME, ya.iter().take(16).collect::<Vec<_>>(), fa, ma.first(),
                    B::NAME, yb.iter().take(16).collect::<Vec<_>>(), fb, mb.first()
                ),
                json!({"kind":"dropin_mutating","prop":"C15","flavour":A::NAME,"n":c.n,"connects":c.edges,"root":c.root,"loop":format!("{:?}", c.lp),"script":format!("{:?}", c.script),"step":c.step,"fire_every":c.fire_every}),
            );
            if rep.total_violations() > 60 {
                return;
            }
        }
    }
}
