//! Flavour abstraction: one trait, four macro-generated implementations
//! (digraph, sync_digraph, ungraph, sync_ungraph) instantiated at
//! K = u32, N = Payload, E = Eid.  Every monitor is generic over `Flav`, so
//! it runs unchanged on plain and sync code.  Everything goes through the
//! public API of gdsl only.

use crate::types::*;

#[derive(Clone, Copy, Debug, PartialEq, Eq, Hash, PartialOrd, Ord)]
pub enum Algo {
    Bfs,
    Dfs,
    PfsMin,
    PfsMax,
    Pre,
    Post,
}

#[derive(Clone, Copy, Debug, PartialEq, Eq, Hash, PartialOrd, Ord)]
pub enum Mode {
    Search,
    Path,
    Cycle,
    Nodes,
    Edges,
}

#[derive(Clone, Copy, Debug, PartialEq, Eq, Hash, PartialOrd, Ord)]
pub enum Meth {
    None,
    ForEach,
    Filter,
}

#[derive(Clone, Copy, Debug, PartialEq, Eq, Hash)]
pub struct Cfg {
    pub algo: Algo,
    pub transpose: bool,
    /// call transpose() a second time (must stay transposed: it configures, it does not toggle)
    pub twice: bool,
    pub target: Option<K>,
    pub mode: Mode,
    pub meth: Meth,
}

impl Cfg {
    pub fn new(algo: Algo, mode: Mode) -> Cfg {
        Cfg {
            algo,
            transpose: false,
            twice: false,
            target: None,
            mode,
            meth: Meth::None,
        }
    }
    pub fn valid(&self, directed: bool) -> bool {
        if self.transpose && !directed {
            return false;
        }
        match self.algo {
            Algo::Pre | Algo::Post => {
                matches!(self.mode, Mode::Nodes | Mode::Edges) && self.target.is_none()
            }
            _ => matches!(self.mode, Mode::Search | Mode::Path | Mode::Cycle),
        }
    }
    pub fn short(&self) -> String {
        format!(
            "{:?}{}{}.{:?}/{:?}",
            self.algo,
            if self.transpose && self.twice { ".T.T" } else if self.transpose { ".T" } else { "" },
            match self.target {
                Some(t) => format!(".t{}", t),
                None => String::new(),
            },
            self.mode,
            self.meth
        )
    }
}

#[derive(Clone, Copy, Debug, PartialEq, Eq, Hash)]
pub enum ErrK {
    NotFound,
    Exists,
}

fn errk(e: gdsl::error::Error) -> ErrK {
    match e {
        gdsl::error::Error::EdgeNotFound => ErrK::NotFound,
        gdsl::error::Error::EdgeAlreadyExists => ErrK::Exists,
    }
}

pub type Attrs = Option<Vec<(String, String)>>;

pub enum Out<F: Flav> {
    Node(Option<F::Node>),
    Path(Option<PathH<F>>),
    Nodes(Vec<F::Node>),
    Edges(Vec<F::Edge>),
}

pub trait Flav: Sized + 'static {
    const NAME: &'static str;
    const DIRECTED: bool;
    const SYNC: bool;
    type Node: Clone;
    type Edge: Clone;
    type Graph;

    // ---- node ----
    fn node(k: K, p: Payload) -> Self::Node;
    fn key(n: &Self::Node) -> K;
    fn val(n: &Self::Node) -> &Payload;
    fn deref_val(n: &Self::Node) -> &Payload;
    fn connect(a: &Self::Node, b: &Self::Node, e: Eid);
    fn try_connect(a: &Self::Node, b: &Self::Node, e: Eid) -> Result<(), ErrK>;
    fn disconnect(a: &Self::Node, k: &K) -> Result<Eid, ErrK>;
    fn isolate(a: &Self::Node);
    /// directed: iter_out ; undirected: iter
    fn iter_out(n: &Self::Node) -> Vec<Self::Edge>;
    /// directed: iter_in ; undirected: empty
    fn iter_in(n: &Self::Node) -> Vec<Self::Edge>;
    /// `for e in &node`
    fn iter_into(n: &Self::Node) -> Vec<Self::Edge>;
    /// step-wise iteration; the callback returns false to stop.
    /// which: 0 = iter_out/iter, 1 = iter_in (directed only), 2 = `&node`
    fn iter_with(n: &Self::Node, which: u8, f: &mut dyn FnMut(&Self::Edge) -> bool);
    fn out_degree(n: &Self::Node) -> usize;
    fn in_degree(n: &Self::Node) -> usize;
    fn is_root(n: &Self::Node) -> Option<bool>;
    fn is_leaf(n: &Self::Node) -> Option<bool>;
    fn is_orphan(n: &Self::Node) -> bool;
    fn is_connected(n: &Self::Node, k: &K) -> bool;
    /// directed: find_outbound ; undirected: find_adjacent
    fn find_out(n: &Self::Node, k: &K) -> Option<Self::Node>;
    /// directed: find_inbound ; undirected: None
    fn find_in(n: &Self::Node, k: &K) -> Option<Self::Node>;
    fn node_eq(a: &Self::Node, b: &Self::Node) -> bool;
    /// (a<b, a<=b, a>b, a>=b, cmp, partial_cmp)
    fn node_cmp(
        a: &Self::Node,
        b: &Self::Node,
    ) -> (
        bool,
        bool,
        bool,
        bool,
        std::cmp::Ordering,
        Option<std::cmp::Ordering>,
    );
    fn node_sizeof(n: &Self::Node) -> usize;

    // ---- edge ----
    fn mk_edge(a: &Self::Node, b: &Self::Node, e: Eid) -> Self::Edge;
    fn e_src(e: &Self::Edge) -> &Self::Node;
    fn e_dst(e: &Self::Edge) -> &Self::Node;
    fn e_val(e: &Self::Edge) -> &Eid;
    /// through the accessor methods source()/target()/value()
    fn e_acc(e: &Self::Edge) -> (K, K, Eid);
    fn e_reverse(e: &Self::Edge) -> Self::Edge;
    fn e_eq(a: &Self::Edge, b: &Self::Edge) -> bool;

    // ---- search ----
    fn search(
        n: &Self::Node,
        cfg: &Cfg,
        cb: Option<&mut dyn FnMut(&Self::Edge) -> bool>,
    ) -> Out<Self>;

    // ---- container ----
    fn g_new() -> Self::Graph;
    fn g_default() -> Self::Graph;
    fn g_insert(g: &mut Self::Graph, n: Self::Node) -> bool;
    fn g_get(g: &Self::Graph, k: &K) -> Option<Self::Node>;
    /// `g[k]` (panics when absent)
    fn g_index(g: &Self::Graph, k: K) -> Self::Node;
    fn g_contains(g: &Self::Graph, k: &K) -> bool;
    fn g_len(g: &Self::Graph) -> usize;
    fn g_is_empty(g: &Self::Graph) -> bool;
    fn g_remove(g: &mut Self::Graph, k: &K) -> Option<Self::Node>;
    fn g_to_vec(g: &Self::Graph) -> Vec<Self::Node>;
    fn g_iter(g: &Self::Graph) -> Vec<(K, Self::Node)>;
    fn g_roots(g: &Self::Graph) -> Option<Vec<Self::Node>>;
    fn g_leaves(g: &Self::Graph) -> Option<Vec<Self::Node>>;
    fn g_orphans(g: &Self::Graph) -> Vec<Self::Node>;
    fn g_scc(g: &Self::Graph) -> Option<Vec<Vec<Self::Node>>>;
    fn g_to_dot(g: &Self::Graph) -> String;
    fn g_to_dot_attr(
        g: &Self::Graph,
        gattr: &dyn Fn() -> Attrs,
        nattr: &dyn Fn(&Self::Node) -> Attrs,
        eattr: &dyn Fn(&Self::Node, &Self::Node, &Eid) -> Attrs,
    ) -> Option<String>;
    fn g_sizeof(g: &Self::Graph) -> Option<usize>;
    fn ser_json(g: &Self::Graph) -> Result<String, String>;
    fn de_json(s: &str) -> Result<Self::Graph, String>;
    fn ser_cbor(g: &Self::Graph) -> Result<Vec<u8>, String>;
    fn de_cbor(b: &[u8]) -> Result<Self::Graph, String>;
}


/// Queries on a live `Path` object.  gdsl does not export the `Path` type by
/// name, so the harness keeps a path behind a closure that owns it; every
/// accessor runs on the real object, and dropping the handle drops the path.
#[derive(Clone, Copy, Debug)]
pub enum PQ {
    IterEdges,
    ToVecEdges,
    PubEdges,
    IterNodes,
    ToVecNodes,
    Len,
    FirstEdge,
    LastEdge,
    FirstNode,
    LastNode,
    Index(usize),
}

pub enum PA<F: Flav> {
    Edges(Vec<F::Edge>),
    Nodes(Vec<F::Node>),
    Len(usize),
    OptEdge(Option<F::Edge>),
    OptNode(Option<F::Node>),
    Edge(F::Edge),
}

pub struct PathH<F: Flav>(pub Box<dyn Fn(PQ) -> PA<F>>);

impl<F: Flav> PathH<F> {
    fn edges_q(&self, q: PQ) -> Vec<F::Edge> {
        match (self.0)(q) {
            PA::Edges(v) => v,
            _ => unreachable!(),
        }
    }
    fn nodes_q(&self, q: PQ) -> Vec<F::Node> {
        match (self.0)(q) {
            PA::Nodes(v) => v,
            _ => unreachable!(),
        }
    }
    pub fn iter_edges(&self) -> Vec<F::Edge> {
        self.edges_q(PQ::IterEdges)
    }
    pub fn to_vec_edges(&self) -> Vec<F::Edge> {
        self.edges_q(PQ::ToVecEdges)
    }
    pub fn pub_edges(&self) -> Vec<F::Edge> {
        self.edges_q(PQ::PubEdges)
    }
    pub fn iter_nodes(&self) -> Vec<F::Node> {
        self.nodes_q(PQ::IterNodes)
    }
    pub fn to_vec_nodes(&self) -> Vec<F::Node> {
        self.nodes_q(PQ::ToVecNodes)
    }
    pub fn len(&self) -> usize {
        match (self.0)(PQ::Len) {
            PA::Len(n) => n,
            _ => unreachable!(),
        }
    }
    pub fn first_edge(&self) -> Option<F::Edge> {
        match (self.0)(PQ::FirstEdge) {
            PA::OptEdge(e) => e,
            _ => unreachable!(),
        }
    }
    pub fn last_edge(&self) -> Option<F::Edge> {
        match (self.0)(PQ::LastEdge) {
            PA::OptEdge(e) => e,
            _ => unreachable!(),
        }
    }
    pub fn first_node(&self) -> Option<F::Node> {
        match (self.0)(PQ::FirstNode) {
            PA::OptNode(e) => e,
            _ => unreachable!(),
        }
    }
    pub fn last_node(&self) -> Option<F::Node> {
        match (self.0)(PQ::LastNode) {
            PA::OptNode(e) => e,
            _ => unreachable!(),
        }
    }
    pub fn index(&self, i: usize) -> F::Edge {
        match (self.0)(PQ::Index(i)) {
            PA::Edge(e) => e,
            _ => unreachable!(),
        }
    }
}

macro_rules! wrap_path {
    ($p:expr) => {
        $p.map(|p| {
            PathH::<Self>(Box::new(move |q: PQ| match q {
                PQ::IterEdges => PA::Edges(p.iter_edges().collect()),
                PQ::ToVecEdges => PA::Edges(p.to_vec_edges()),
                PQ::PubEdges => PA::Edges(p.edges.clone()),
                PQ::IterNodes => PA::Nodes(p.iter_nodes().collect()),
                PQ::ToVecNodes => PA::Nodes(p.to_vec_nodes()),
                PQ::Len => PA::Len(p.len()),
                PQ::FirstEdge => PA::OptEdge(p.first_edge().cloned()),
                PQ::LastEdge => PA::OptEdge(p.last_edge().cloned()),
                PQ::FirstNode => PA::OptNode(p.first_node().cloned()),
                PQ::LastNode => PA::OptNode(p.last_node().cloned()),
                PQ::Index(i) => PA::Edge(p[i].clone()),
            }))
        })
    };
}

macro_rules! finish_path_search {
    ($s:ident, $cfg:ident) => {
        match $cfg.mode {
            Mode::Search => Out::Node($s.search()),
            Mode::Path => Out::Path(wrap_path!($s.search_path())),
            Mode::Cycle => Out::Path(wrap_path!($s.search_cycle())),
            _ => panic!("harness: invalid cfg"),
        }
    };
}

macro_rules! finish_order_search {
    ($s:ident, $cfg:ident) => {
        match $cfg.mode {
            Mode::Nodes => Out::Nodes($s.search_nodes()),
            Mode::Edges => Out::Edges($s.search_edges()),
            _ => panic!("harness: invalid cfg"),
        }
    };
}

macro_rules! with_method {
    ($s:ident, $cfg:ident, $cb:ident, $m:ident, $fin:ident) => {{
        type Ed = gdsl::$m::Edge<K, Payload, Eid>;
        match $cfg.meth {
            Meth::None => {
                let mut $s = $s;
                $fin!($s, $cfg)
            }
            Meth::Filter => {
                let cbr = $cb.expect("harness: filter needs a callback");
                let mut f = |e: &Ed| cbr(e);
                let mut $s = $s.filter(&mut f);
                $fin!($s, $cfg)
            }
            Meth::ForEach => {
                let cbr = $cb.expect("harness: for_each needs a callback");
                let mut f = |e: &Ed| {
                    cbr(e);
                };
                let mut $s = $s.for_each(&mut f);
                $fin!($s, $cfg)
            }
        }
    }};
}

macro_rules! flav_common {
    ($m:ident) => {
        type Node = gdsl::$m::Node<K, Payload, Eid>;
        type Edge = gdsl::$m::Edge<K, Payload, Eid>;
        type Graph = gdsl::$m::Graph<K, Payload, Eid>;

        fn node(k: K, p: Payload) -> Self::Node {
            <Self::Node>::new(k, p)
        }
        fn key(n: &Self::Node) -> K {
            *n.key()
        }
        fn val(n: &Self::Node) -> &Payload {
            n.value()
        }
        fn deref_val(n: &Self::Node) -> &Payload {
            &**n
        }
        fn connect(a: &Self::Node, b: &Self::Node, e: Eid) {
            a.connect(b, e)
        }
        fn try_connect(a: &Self::Node, b: &Self::Node, e: Eid) -> Result<(), ErrK> {
            a.try_connect(b, e).map_err(errk)
        }
        fn disconnect(a: &Self::Node, k: &K) -> Result<Eid, ErrK> {
            a.disconnect(k).map_err(errk)
        }
        fn isolate(a: &Self::Node) {
            a.isolate()
        }
        fn iter_into(n: &Self::Node) -> Vec<Self::Edge> {
            let mut v = vec![];
            for e in n {
                v.push(e);
            }
            v
        }
        fn is_orphan(n: &Self::Node) -> bool {
            n.is_orphan()
        }
        fn is_connected(n: &Self::Node, k: &K) -> bool {
            n.is_connected(k)
        }
        fn node_eq(a: &Self::Node, b: &Self::Node) -> bool {
            let e = a == b;
            let ne = a != b;
            assert!(e != ne, "harness: == and != agree");
            e
        }
        fn node_cmp(
            a: &Self::Node,
            b: &Self::Node,
        ) -> (
            bool,
            bool,
            bool,
            bool,
            std::cmp::Ordering,
            Option<std::cmp::Ordering>,
        ) {
            (a < b, a <= b, a > b, a >= b, a.cmp(b), a.partial_cmp(b))
        }
        fn node_sizeof(n: &Self::Node) -> usize {
            n.sizeof()
        }
        fn mk_edge(a: &Self::Node, b: &Self::Node, e: Eid) -> Self::Edge {
            gdsl::$m::Edge(a.clone(), b.clone(), e)
        }
        fn e_src(e: &Self::Edge) -> &Self::Node {
            &e.0
        }
        fn e_dst(e: &Self::Edge) -> &Self::Node {
            &e.1
        }
        fn e_val(e: &Self::Edge) -> &Eid {
            &e.2
        }
        fn e_acc(e: &Self::Edge) -> (K, K, Eid) {
            (*e.source().key(), *e.target().key(), *e.value())
        }
        fn e_reverse(e: &Self::Edge) -> Self::Edge {
            e.reverse()
        }
        fn e_eq(a: &Self::Edge, b: &Self::Edge) -> bool {
            a == b
        }
        fn g_new() -> Self::Graph {
            <Self::Graph>::new()
        }
        fn g_default() -> Self::Graph {
            <Self::Graph as Default>::default()
        }
        fn g_insert(g: &mut Self::Graph, n: Self::Node) -> bool {
            g.insert(n)
        }
        fn g_get(g: &Self::Graph, k: &K) -> Option<Self::Node> {
            g.get(k)
        }
        fn g_index(g: &Self::Graph, k: K) -> Self::Node {
            g[k].clone()
        }
        fn g_contains(g: &Self::Graph, k: &K) -> bool {
            g.contains(k)
        }
        fn g_len(g: &Self::Graph) -> usize {
            g.len()
        }
        fn g_is_empty(g: &Self::Graph) -> bool {
            g.is_empty()
        }
        fn g_remove(g: &mut Self::Graph, k: &K) -> Option<Self::Node> {
            g.remove(k)
        }
        fn g_to_vec(g: &Self::Graph) -> Vec<Self::Node> {
            g.to_vec()
        }
        fn g_iter(g: &Self::Graph) -> Vec<(K, Self::Node)> {
            g.iter().map(|(k, n)| (*k, n.clone())).collect()
        }
        fn g_orphans(g: &Self::Graph) -> Vec<Self::Node> {
            g.orphans()
        }
        fn g_to_dot(g: &Self::Graph) -> String {
            g.to_dot()
        }
        fn ser_json(g: &Self::Graph) -> Result<String, String> {
            serde_json::to_string(g).map_err(|e| e.to_string())
        }
        fn de_json(s: &str) -> Result<Self::Graph, String> {
            serde_json::from_str(s).map_err(|e| e.to_string())
        }
        fn ser_cbor(g: &Self::Graph) -> Result<Vec<u8>, String> {
            serde_cbor::to_vec(g).map_err(|e| e.to_string())
        }
        fn de_cbor(b: &[u8]) -> Result<Self::Graph, String> {
            serde_cbor::from_slice(b).map_err(|e| e.to_string())
        }
    };
}

macro_rules! dot_attr_impl {
    ($m:ident) => {
        fn g_to_dot_attr(
            g: &Self::Graph,
            gattr: &dyn Fn() -> Attrs,
            nattr: &dyn Fn(&Self::Node) -> Attrs,
            eattr: &dyn Fn(&Self::Node, &Self::Node, &Eid) -> Attrs,
        ) -> Option<String> {
            Some(g.to_dot_with_attr(&|_g| gattr(), &|n| nattr(n), &|u, v, e| eattr(u, v, e)))
        }
        fn g_sizeof(g: &Self::Graph) -> Option<usize> {
            Some(g.sizeof())
        }
    };
}

macro_rules! impl_directed {
    ($name:ident, $m:ident, $label:expr, $sync:expr) => {
        pub struct $name;
        impl Flav for $name {
            const NAME: &'static str = $label;
            const DIRECTED: bool = true;
            const SYNC: bool = $sync;
            flav_common!($m);
            dot_attr_impl!($m);

            fn iter_out(n: &Self::Node) -> Vec<Self::Edge> {
                n.iter_out().collect()
            }
            fn iter_in(n: &Self::Node) -> Vec<Self::Edge> {
                n.iter_in().collect()
            }
            fn iter_with(n: &Self::Node, which: u8, f: &mut dyn FnMut(&Self::Edge) -> bool) {
                match which {
                    0 => {
                        for e in n.iter_out() {
                            if !f(&e) {
                                break;
                            }
                        }
                    }
                    1 => {
                        for e in n.iter_in() {
                            if !f(&e) {
                                break;
                            }
                        }
                    }
                    _ => {
                        for e in n {
                            if !f(&e) {
                                break;
                            }
                        }
                    }
                }
            }
            fn out_degree(n: &Self::Node) -> usize {
                n.out_degree()
            }
            fn in_degree(n: &Self::Node) -> usize {
                n.in_degree()
            }
            fn is_root(n: &Self::Node) -> Option<bool> {
                Some(n.is_root())
            }
            fn is_leaf(n: &Self::Node) -> Option<bool> {
                Some(n.is_leaf())
            }
            fn find_out(n: &Self::Node, k: &K) -> Option<Self::Node> {
                n.find_outbound(k)
            }
            fn find_in(n: &Self::Node, k: &K) -> Option<Self::Node> {
                n.find_inbound(k)
            }
            fn g_roots(g: &Self::Graph) -> Option<Vec<Self::Node>> {
                Some(g.roots())
            }
            fn g_leaves(g: &Self::Graph) -> Option<Vec<Self::Node>> {
                Some(g.leaves())
            }
            fn g_scc(g: &Self::Graph) -> Option<Vec<Vec<Self::Node>>> {
                Some(g.scc())
            }
            fn search(
                n: &Self::Node,
                cfg: &Cfg,
                cb: Option<&mut dyn FnMut(&Self::Edge) -> bool>,
            ) -> Out<Self> {
                match cfg.algo {
                    Algo::Bfs => {
                        let mut s = n.bfs();
                        if cfg.transpose {
                            s = s.transpose();
                        }
                        if cfg.transpose && cfg.twice {
                            s = s.transpose();
                        }
                        if let Some(ref t) = cfg.target {
                            s = s.target(t);
                        }
                        with_method!(s, cfg, cb, $m, finish_path_search)
                    }
                    Algo::Dfs => {
                        let mut s = n.dfs();
                        if cfg.transpose {
                            s = s.transpose();
                        }
                        if cfg.transpose && cfg.twice {
                            s = s.transpose();
                        }
                        if let Some(ref t) = cfg.target {
                            s = s.target(t);
                        }
                        with_method!(s, cfg, cb, $m, finish_path_search)
                    }
                    Algo::PfsMin | Algo::PfsMax => {
                        let mut s = n.pfs();
                        s = if cfg.algo == Algo::PfsMax { s.max() } else { s.min() };
                        if cfg.transpose {
                            s = s.transpose();
                        }
                        if cfg.transpose && cfg.twice {
                            s = s.transpose();
                        }
                        if let Some(ref t) = cfg.target {
                            s = s.target(t);
                        }
                        with_method!(s, cfg, cb, $m, finish_path_search)
                    }
                    Algo::Pre | Algo::Post => {
                        let mut s = if cfg.algo == Algo::Pre {
                            n.preorder()
                        } else {
                            n.postorder()
                        };
                        if cfg.transpose {
                            s = s.transpose();
                        }
                        if cfg.transpose && cfg.twice {
                            s = s.transpose();
                        }
                        with_method!(s, cfg, cb, $m, finish_order_search)
                    }
                }
            }
        }
    };
}

macro_rules! impl_undirected {
    ($name:ident, $m:ident, $label:expr, $sync:expr, $dotattr:tt) => {
        pub struct $name;
        impl Flav for $name {
            const NAME: &'static str = $label;
            const DIRECTED: bool = false;
            const SYNC: bool = $sync;
            flav_common!($m);
            undirected_dot!($m, $dotattr);

            fn iter_out(n: &Self::Node) -> Vec<Self::Edge> {
                n.iter().collect()
            }
            fn iter_in(_n: &Self::Node) -> Vec<Self::Edge> {
                vec![]
            }
            fn iter_with(n: &Self::Node, which: u8, f: &mut dyn FnMut(&Self::Edge) -> bool) {
                match which {
                    0 | 1 => {
                        for e in n.iter() {
                            if !f(&e) {
                                break;
                            }
                        }
                    }
                    _ => {
                        for e in n {
                            if !f(&e) {
                                break;
                            }
                        }
                    }
                }
            }
            fn out_degree(n: &Self::Node) -> usize {
                n.degree()
            }
            fn in_degree(_n: &Self::Node) -> usize {
                0
            }
            fn is_root(_n: &Self::Node) -> Option<bool> {
                None
            }
            fn is_leaf(_n: &Self::Node) -> Option<bool> {
                None
            }
            fn find_out(n: &Self::Node, k: &K) -> Option<Self::Node> {
                n.find_adjacent(k)
            }
            fn find_in(_n: &Self::Node, _k: &K) -> Option<Self::Node> {
                None
            }
            fn g_roots(_g: &Self::Graph) -> Option<Vec<Self::Node>> {
                None
            }
            fn g_leaves(_g: &Self::Graph) -> Option<Vec<Self::Node>> {
                None
            }
            fn g_scc(_g: &Self::Graph) -> Option<Vec<Vec<Self::Node>>> {
                None
            }
            fn search(
                n: &Self::Node,
                cfg: &Cfg,
                cb: Option<&mut dyn FnMut(&Self::Edge) -> bool>,
            ) -> Out<Self> {
                assert!(!cfg.transpose, "harness: transpose on undirected");
                match cfg.algo {
                    Algo::Bfs => {
                        let mut s = n.bfs();
                        if let Some(ref t) = cfg.target {
                            s = s.target(t);
                        }
                        with_method!(s, cfg, cb, $m, finish_path_search)
                    }
                    Algo::Dfs => {
                        let mut s = n.dfs();
                        if let Some(ref t) = cfg.target {
                            s = s.target(t);
                        }
                        with_method!(s, cfg, cb, $m, finish_path_search)
                    }
                    Algo::PfsMin | Algo::PfsMax => {
                        let mut s = n.pfs();
                        s = if cfg.algo == Algo::PfsMax { s.max() } else { s.min() };
                        if let Some(ref t) = cfg.target {
                            s = s.target(t);
                        }
                        with_method!(s, cfg, cb, $m, finish_path_search)
                    }
                    Algo::Pre | Algo::Post => {
                        let s = if cfg.algo == Algo::Pre {
                            n.order().pre()
                        } else {
                            n.order().post()
                        };
                        with_method!(s, cfg, cb, $m, finish_order_search)
                    }
                }
            }
        }
    };
}

macro_rules! undirected_dot {
    ($m:ident, yes) => {
        dot_attr_impl!($m);
    };
    ($m:ident, no) => {
        fn g_to_dot_attr(
            _g: &Self::Graph,
            _gattr: &dyn Fn() -> Attrs,
            _nattr: &dyn Fn(&Self::Node) -> Attrs,
            _eattr: &dyn Fn(&Self::Node, &Self::Node, &Eid) -> Attrs,
        ) -> Option<String> {
            None
        }
        fn g_sizeof(_g: &Self::Graph) -> Option<usize> {
            None
        }
    };
}

impl_directed!(PlainDi, digraph, "digraph", false);
impl_directed!(SyncDi, sync_digraph, "sync_digraph", true);
impl_undirected!(PlainUn, ungraph, "ungraph", false, yes);
impl_undirected!(SyncUn, sync_ungraph, "sync_ungraph", true, no);

/// Marker for flavours whose handles can cross threads.
pub trait SyncFlav: Flav
where
    Self::Node: Send + Sync,
{
}
impl SyncFlav for SyncDi {}
impl SyncFlav for SyncUn {}

/// Runs `$body` once per flavour selected by name ("all" = every flavour).
#[macro_export]
macro_rules! for_flavours {
    ($sel:expr, $f:ident, $body:block) => {{
        let sel: &str = $sel;
        if sel == "all" || sel == "directed" || sel == "digraph" {
            type $f = $crate::flav::PlainDi;
            $body
        }
        if sel == "all" || sel == "directed" || sel == "sync" || sel == "sync_digraph" {
            type $f = $crate::flav::SyncDi;
            $body
        }
        if sel == "all" || sel == "undirected" || sel == "ungraph" {
            type $f = $crate::flav::PlainUn;
            $body
        }
        if sel == "all" || sel == "undirected" || sel == "sync" || sel == "sync_ungraph" {
            type $f = $crate::flav::SyncUn;
            $body
        }
    }};
}
