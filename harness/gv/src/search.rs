//! C04-C10: search / traversal oracles evaluated on enumerated small
//! multigraphs and seeded random graphs, all four flavours.

use crate::core::*;
use crate::flav::*;
use crate::model::*;
use crate::report::*;
use crate::types::*;
use serde_json::json;
use std::collections::{HashMap, HashSet};

// ------------------------------------------------------------ predicates

#[derive(Clone, Debug)]
pub enum Pred {
    All,
    /// rejects edges by id (a predicate over the value)
    Ids(Vec<u32>),
    /// rejects (source, target, id) triples as presented to the closure
    Triples(Vec<(K, K, u32)>),
}

impl Pred {
    pub fn accepts(&self, s: K, d: K, e: Eid) -> bool {
        match self {
            Pred::All => true,
            Pred::Ids(v) => !v.contains(&e.id),
            Pred::Triples(v) => !v.contains(&(s, d, e.id)),
        }
    }
    pub fn is_all(&self) -> bool {
        matches!(self, Pred::All)
    }
    pub fn short(&self) -> String {
        match self {
            Pred::All => "accept-all".into(),
            Pred::Ids(v) => format!("reject-ids{:?}", v),
            Pred::Triples(v) => format!("reject{:?}", v),
        }
    }
}

// ------------------------------------------------------------ plain results

#[derive(Clone, Debug, PartialEq, Eq)]
pub struct PPath {
    pub edges: Vec<PEdge>,
    pub nodes: Vec<K>,
    pub len: usize,
}

#[derive(Clone, Debug, PartialEq, Eq)]
pub enum PlainOut {
    Node(Option<K>),
    Path(Option<PPath>),
    Nodes(Vec<K>),
    Edges(Vec<PEdge>),
}

pub struct SearchRun {
    pub out: Result<PlainOut, String>,
    pub log: Vec<PEdge>,
    pub errs: Vec<String>,
}

fn pe<F: Flav>(e: &F::Edge) -> PEdge {
    (F::key(F::e_src(e)), F::key(F::e_dst(e)), *F::e_val(e))
}

fn ident<F: Flav>(w: &World<F>, h: &F::Node, what: &str, errs: &mut Vec<String>) {
    let k = F::key(h) as usize;
    if k >= w.insts.len() || F::val(h).inst != w.insts[k] {
        errs.push(format!("{} hands out a foreign node for key {}", what, k));
    }
}

fn plain_path<F: Flav>(w: &World<F>, p: &PathH<F>, errs: &mut Vec<String>) -> PPath {
    let ie = p.iter_edges();
    let edges: Vec<PEdge> = ie.iter().map(|e| pe::<F>(e)).collect();
    for e in &ie {
        ident::<F>(w, F::e_src(e), "path edge", errs);
        ident::<F>(w, F::e_dst(e), "path edge", errs);
    }
    let tv: Vec<PEdge> = p.to_vec_edges().iter().map(|e| pe::<F>(e)).collect();
    let pb: Vec<PEdge> = p.pub_edges().iter().map(|e| pe::<F>(e)).collect();
    if tv != edges || pb != edges {
        errs.push("Path: iter_edges / to_vec_edges / edges disagree".into());
    }
    let nv = p.to_vec_nodes();
    for h in &nv {
        ident::<F>(w, h, "path node", errs);
    }
    let nodes: Vec<K> = nv.iter().map(|n| F::key(n)).collect();
    let ni: Vec<K> = p.iter_nodes().iter().map(|n| F::key(n)).collect();
    if ni != nodes {
        errs.push("Path: iter_nodes / to_vec_nodes disagree".into());
    }
    let mut want_nodes: Vec<K> = vec![];
    if let Some(f) = edges.first() {
        want_nodes.push(f.0);
    }
    want_nodes.extend(edges.iter().map(|e| e.1));
    if nodes != want_nodes {
        errs.push(format!("Path: nodes {:?} are not the endpoints of its edges {:?}", nodes, edges.iter().map(|e| (e.0, e.1)).collect::<Vec<_>>()));
    }
    let len = p.len();
    if len != edges.len() + 1 {
        errs.push(format!("Path: len() = {} with {} edges", len, edges.len()));
    }
    for i in 0..edges.len() {
        if pe::<F>(&p.index(i)) != edges[i] {
            errs.push("Path: index disagrees with iter_edges".into());
        }
    }
    if p.first_edge().map(|e| pe::<F>(&e)) != edges.first().copied() || p.last_edge().map(|e| pe::<F>(&e)) != edges.last().copied() {
        errs.push("Path: first_edge/last_edge disagree with iter_edges".into());
    }
    if p.last_node().map(|n| F::key(&n)) != edges.last().map(|e| e.1) {
        errs.push("Path: last_node is not the target of the last edge".into());
    }
    PPath { edges, nodes, len }
}

pub fn run_search<F: Flav>(w: &World<F>, root: K, cfg: &Cfg, pred: &Pred) -> SearchRun {
    let mut log: Vec<PEdge> = vec![];
    let mut errs: Vec<String> = vec![];
    let mut cb_errs: Vec<String> = vec![];
    watchdog::beat();
    let out = {
        let mut cb = |e: &F::Edge| -> bool {
            let p = pe::<F>(e);
            for h in [F::e_src(e), F::e_dst(e)] {
                let k = F::key(h) as usize;
                if k >= w.insts.len() || F::val(h).inst != w.insts[k] {
                    cb_errs.push(format!("closure received a foreign node for key {}", k));
                }
            }
            log.push(p);
            pred.accepts(p.0, p.1, p.2)
        };
        let node = &w.nodes[root as usize];
        catch(|| match cfg.meth {
            Meth::None => F::search(node, cfg, None),
            _ => F::search(node, cfg, Some(&mut cb)),
        })
    };
    let out = match out {
        Err(p) => Err(p),
        Ok(o) => Ok(match o {
            Out::Node(n) => {
                if let Some(h) = &n {
                    ident::<F>(w, h, "search()", &mut errs);
                }
                PlainOut::Node(n.map(|h| F::key(&h)))
            }
            Out::Path(p) => PlainOut::Path(p.map(|p| plain_path::<F>(w, &p, &mut errs))),
            Out::Nodes(v) => {
                for h in &v {
                    ident::<F>(w, h, "search_nodes()", &mut errs);
                }
                PlainOut::Nodes(v.iter().map(|h| F::key(h)).collect())
            }
            Out::Edges(v) => {
                for e in &v {
                    ident::<F>(w, F::e_src(e), "search_edges()", &mut errs);
                    ident::<F>(w, F::e_dst(e), "search_edges()", &mut errs);
                }
                PlainOut::Edges(v.iter().map(|e| pe::<F>(e)).collect())
            }
        }),
    };
    errs.extend(cb_errs);
    SearchRun { out, log, errs }
}

// ------------------------------------------------------------ graphs

pub struct GraphCase<F: Flav> {
    pub w: World<F>,
    pub m: Model,
    /// the edge-reversed model (what transposed searches are judged against)
    pub mr: Model,
    pub edges: Vec<(K, K)>,
    pub prios: Vec<i32>,
}

pub fn build<F: Flav>(prios: &[i32], edges: &[(K, K)]) -> Result<GraphCase<F>, String> {
    let mut w = World::<F>::with_prios(prios);
    for (a, b) in edges {
        let e = w.fresh();
        F::connect(&w.nodes[*a as usize], &w.nodes[*b as usize], e);
    }
    let o = observe::<F>(&w)?;
    let m = Model::from_obs(&o, F::DIRECTED);
    // the reversed model is derived from the OUT-lists alone (not from what iter_in reports): a transposed
    // traversal must report exactly the stored edges, whatever the in-lists say (C01 owns their agreement)
    let mut mr = Model {
        n: m.n,
        out: vec![vec![]; m.n],
        inn: m.out.clone(),
        directed: m.directed,
    };
    for u in 0..m.n {
        for (v, e) in &m.out[u] {
            if (*v as usize) < m.n {
                mr.out[*v as usize].push((u as K, *e));
            }
        }
    }
    Ok(GraphCase {
        w,
        m,
        mr,
        edges: edges.to_vec(),
        prios: prios.to_vec(),
    })
}

impl<F: Flav> GraphCase<F> {
    /// model for a (possibly transposed) search
    pub fn model(&self, tr: bool) -> &Model {
        if tr {
            &self.mr
        } else {
            &self.m
        }
    }
    pub fn describe(&self) -> String {
        format!(
            "{} n={} prios={:?} connects={:?}",
            F::NAME,
            self.w.n(),
            self.prios,
            self.edges
        )
    }
    pub fn json(&self) -> serde_json::Value {
        json!({"flavour":F::NAME,"prios":self.prios,"connects":self.edges})
    }
}

// ------------------------------------------------------------ shared oracles

/// A path of existing accepted edges from `root` to `end`, joined end to start.
fn check_walk(m: &Model, pred: &Pred, root: K, end: K, p: &PPath, v: &mut Vec<String>) {
    if p.edges.is_empty() {
        v.push("empty path returned".into());
        return;
    }
    if p.edges[0].0 != root {
        v.push(format!("path starts at {} instead of the root {}", p.edges[0].0, root));
    }
    if p.edges.last().unwrap().1 != end {
        v.push(format!("path ends at {} instead of {}", p.edges.last().unwrap().1, end));
    }
    for i in 0..p.edges.len() {
        let (a, b, e) = p.edges[i];
        if !m.has_edge(a, b, e) {
            v.push(format!("path edge ({},{},e{}) does not exist in the graph", a, b, e.id));
        } else if !pred.accepts(a, b, e) {
            v.push(format!("path uses edge ({},{},e{}) that the filter rejects", a, b, e.id));
        }
        if i + 1 < p.edges.len() && p.edges[i + 1].0 != b {
            v.push(format!("path edges #{} and #{} are not joined end to start", i, i + 1));
        }
    }
}

fn acc<'a>(pred: &'a Pred) -> impl Fn(K, K, Eid) -> bool + 'a {
    move |s, d, e| pred.accepts(s, d, e)
}

fn meth_for(pred: &Pred, alt: bool) -> Meth {
    if pred.is_all() && alt {
        Meth::None
    } else {
        Meth::Filter
    }
}

fn algo_name(a: Algo) -> &'static str {
    match a {
        Algo::Bfs => "bfs",
        Algo::Dfs => "dfs",
        Algo::PfsMin => "pfs-min",
        Algo::PfsMax => "pfs-max",
        Algo::Pre => "preorder",
        Algo::Post => "postorder",
    }
}

/// C04 / C05 / C06(ii): target search with path validity.
fn check_target_search<F: Flav>(g: &GraphCase<F>, algo: Algo, tr: bool, root: K, target: K, pred: &Pred, alt: bool, rep: &mut Report) -> Vec<String> {
    let mut v = vec![];
    let a = acc(pred);
    let gm = g.model(tr);
    let d = gm.dist(root, &a);
    let expect = d[target as usize];
    let mut cfg = Cfg::new(algo, Mode::Path);
    cfg.target = Some(target);
    cfg.transpose = tr;
    cfg.meth = meth_for(pred, alt);
    let r = run_search::<F>(&g.w, root, &cfg, pred);
    rep.count("evaluations");
    if tr {
        rep.count("transposed_searches");
    }
    v.extend(r.errs.iter().cloned());
    let mut found_path = None;
    match &r.out {
        Err(p) => v.push(format!("{}.search_path panicked: {}", algo_name(algo), p)),
        Ok(PlainOut::Path(None)) => {
            if expect.is_some() {
                v.push(format!("{}.search_path: target {} is reachable from {} (distance {}) but no path was returned", algo_name(algo), target, root, expect.unwrap()));
            } else {
                rep.count("unreachable_targets");
                if !pred.is_all() && gm.dist(root, &|_, _, _| true)[target as usize].is_some() {
                    rep.count("filter_disconnects_target");
                }
            }
        }
        Ok(PlainOut::Path(Some(p))) => {
            found_path = Some(p.clone());
            if expect.is_none() {
                v.push(format!("{}.search_path returned a path to unreachable target {}", algo_name(algo), target));
            }
            check_walk(gm, pred, root, target, p, &mut v);
            match algo {
                Algo::Bfs => {
                    if let Some(dd) = expect {
                        if p.edges.len() != dd {
                            v.push(format!("bfs path has {} edges, a path with {} exists", p.edges.len(), dd));
                        }
                        if dd >= 2 {
                            rep.count("paths_len_ge2");
                        }
                    }
                }
                _ => {
                    let mut seen = HashSet::new();
                    for k in &p.nodes {
                        if !seen.insert(*k) {
                            v.push(format!("{} path visits node {} twice", algo_name(algo), k));
                        }
                    }
                    if p.edges.len() >= 2 {
                        rep.count("paths_len_ge2");
                    }
                }
            }
        }
        Ok(_) => v.push("harness: wrong output kind".into()),
    }
    // search() must agree
    cfg.mode = Mode::Search;
    let r2 = run_search::<F>(&g.w, root, &cfg, pred);
    rep.count("evaluations");
    v.extend(r2.errs.iter().cloned());
    match &r2.out {
        Err(p) => v.push(format!("{}.search panicked: {}", algo_name(algo), p)),
        Ok(PlainOut::Node(n)) => {
            if n.is_some() != expect.is_some() {
                v.push(format!("{}.search returned {:?} but target {} reachable = {}", algo_name(algo), n, target, expect.is_some()));
            }
            if let Some(k) = n {
                if *k != target {
                    v.push(format!("{}.search returned node {} instead of target {}", algo_name(algo), k, target));
                }
            }
            if let Some(p) = &found_path {
                if n.is_some() && p.nodes.last() != n.as_ref() {
                    v.push("search() and search_path().last_node() differ".into());
                }
            }
        }
        Ok(_) => v.push("harness: wrong output kind".into()),
    }
    v
}

/// C06(i): expansion order read off the closure call log.
fn check_pfs_order(m: &Model, prios: &[i32], root: K, max: bool, log: &[PEdge], pred: &Pred) -> Vec<String> {
    use std::collections::BTreeMap;
    let mut v = vec![];
    let n = m.n;
    let mut discovered = vec![false; n];
    let mut expanded = vec![false; n];
    // waiting = discovered, not yet expanded, has edges to expand; keyed by value
    let mut waiting: BTreeMap<i32, Vec<K>> = BTreeMap::new();
    let mut add_waiting = |waiting: &mut BTreeMap<i32, Vec<K>>, k: K| {
        if !m.out[k as usize].is_empty() {
            waiting.entry(prios[k as usize]).or_default().push(k);
        }
    };
    discovered[root as usize] = true;
    add_waiting(&mut waiting, root);
    let mut i = 0;
    while i < log.len() {
        let x = log[i].0;
        if (x as usize) >= n {
            v.push(format!("closure called with unknown source {}", x));
            break;
        }
        if !discovered[x as usize] {
            v.push(format!("node {} is expanded before it was discovered", x));
        }
        // x leaves the waiting set
        let px = prios[x as usize];
        if let Some(l) = waiting.get_mut(&px) {
            if let Some(p) = l.iter().position(|k| *k == x) {
                l.remove(p);
            }
            if l.is_empty() {
                waiting.remove(&px);
            }
        }
        let better = if max { waiting.iter().next_back() } else { waiting.iter().next() };
        if let Some((py, ys)) = better {
            if (!max && *py < px) || (max && *py > px) {
                v.push(format!(
                    "starts expanding node {} (value {}) while discovered, unexpanded node {} (value {}) with edges is waiting [{}]",
                    x,
                    px,
                    ys[0],
                    py,
                    if max { "max" } else { "min" }
                ));
            }
        }
        expanded[x as usize] = true;
        let mut j = i;
        while j < log.len() && log[j].0 == x {
            let (s, d, e) = log[j];
            if (d as usize) < n && pred.accepts(s, d, e) && !discovered[d as usize] {
                discovered[d as usize] = true;
                if !expanded[d as usize] {
                    add_waiting(&mut waiting, d);
                }
            }
            j += 1;
        }
        i = j;
        if v.len() > 4 {
            break;
        }
    }
    v
}

/// C07: for_each exactly once per edge leaving a reachable node.
fn check_foreach_once(m: &Model, root: K, log: &[PEdge], what: &str) -> Vec<String> {
    let mut v = vec![];
    let reach = m.reach(root, &|_, _, _| true);
    let mut want: HashMap<PEdge, i64> = HashMap::new();
    for u in 0..m.n {
        if reach[u] {
            for (d, e) in &m.out[u] {
                *want.entry((u as K, *d, *e)).or_insert(0) += 1;
            }
        }
    }
    let mut got: HashMap<PEdge, i64> = HashMap::new();
    for l in log {
        *got.entry(*l).or_insert(0) += 1;
    }
    for (k, c) in &got {
        let w = want.get(k).copied().unwrap_or(0);
        if w == 0 {
            if m.has_edge(k.0, k.1, k.2) {
                v.push(format!("{}: for_each called for edge ({},{},e{}) whose source is not reachable", what, k.0, k.1, k.2.id));
            } else {
                v.push(format!("{}: for_each called with ({},{},e{}) which is not an edge of the graph", what, k.0, k.1, k.2.id));
            }
        } else if *c != w {
            v.push(format!("{}: for_each called {} times for edge ({},{},e{}), expected {}", what, c, k.0, k.1, k.2.id, w));
        }
    }
    for (k, w) in &want {
        if !got.contains_key(k) {
            v.push(format!("{}: for_each never called for reachable edge ({},{},e{}) (expected {})", what, k.0, k.1, k.2.id, w));
        }
    }
    v
}

/// C09 oracle for one result.
fn check_cycle(m: &Model, directed: bool, algo: Algo, root: K, pred: &Pred, out: &Result<PlainOut, String>, rep: &mut Report) -> Vec<String> {
    let mut v = vec![];
    let a = acc(pred);
    let expect = m.shortest_cycle(root, &a);
    match out {
        Err(p) => v.push(format!("{}.search_cycle panicked: {}", algo_name(algo), p)),
        Ok(PlainOut::Path(None)) => {
            if let Some(l) = expect {
                v.push(format!("{}.search_cycle: a cycle of {} accepted edges through {} exists but none was returned", algo_name(algo), l, root));
            } else {
                rep.count("acyclic_roots");
            }
        }
        Ok(PlainOut::Path(Some(p))) => {
            if expect.is_none() {
                v.push(format!("{}.search_cycle returned a cycle although none exists through {}", algo_name(algo), root));
            }
            check_walk(m, pred, root, root, p, &mut v);
            if directed {
                let mut ids = HashSet::new();
                for e in &p.edges {
                    if !ids.insert(e.2.id) {
                        v.push(format!("cycle uses edge e{} twice", e.2.id));
                    }
                }
                let mut seen = HashSet::new();
                for (i, e) in p.edges.iter().enumerate() {
                    if i + 1 < p.edges.len() {
                        if e.1 == root {
                            v.push("cycle passes through the root in the middle".into());
                        }
                        if !seen.insert(e.1) {
                            v.push(format!("cycle visits intermediate node {} twice", e.1));
                        }
                    }
                }
                if algo == Algo::Bfs {
                    if let Some(l) = expect {
                        if p.edges.len() != l {
                            v.push(format!("bfs cycle has {} edges, a cycle with {} exists", p.edges.len(), l));
                        }
                    }
                }
            }
            if p.edges.len() == 1 {
                rep.count("selfloop_cycles");
            }
            if p.edges.len() >= 3 {
                rep.count("cycles_len_ge3");
            }
        }
        Ok(_) => v.push("harness: wrong output kind".into()),
    }
    v
}

/// C10 oracle for one (nodes, edges) pair of results.
fn check_order(m: &Model, algo: Algo, root: K, pred: &Pred, nodes: &Result<PlainOut, String>, edges: &Result<PlainOut, String>, rep: &mut Report) -> Vec<String> {
    let mut v = vec![];
    let a = acc(pred);
    let name = algo_name(algo);
    let seq = match nodes {
        Err(p) => {
            v.push(format!("{}.search_nodes panicked: {}", name, p));
            return v;
        }
        Ok(PlainOut::Nodes(s)) => s.clone(),
        Ok(_) => {
            v.push("harness: wrong output kind".into());
            return v;
        }
    };
    let reach = m.reach(root, &a);
    let nreach = reach.iter().filter(|x| **x).count();
    if algo == Algo::Pre {
        if let Err(e) = m.is_dfs_preorder(root, &seq, &a) {
            v.push(format!("preorder {:?} from {}: {}", seq, root, e));
        }
    } else {
        let mut budget = 200_000u64;
        match m.is_dfs_postorder(root, &seq, &a, &mut budget) {
            Some(Ok(())) => rep.count("postorder_exact_decisions"),
            Some(Err(e)) => v.push(format!("postorder {:?} from {}: {}", seq, root, e)),
            None => {
                rep.count("postorder_necessary_only");
                if let Err(e) = m.postorder_necessary(&seq, &a) {
                    v.push(format!("postorder {:?} from {}: {}", seq, root, e));
                }
            }
        }
    }
    if nreach >= 3 {
        rep.count("orders_ge3_nodes");
    }
    match edges {
        Err(p) => v.push(format!("{}.search_edges panicked: {}", name, p)),
        Ok(PlainOut::Edges(es)) => {
            let tg: Vec<K> = es.iter().map(|e| e.1).collect();
            let want: Vec<K> = seq.iter().copied().filter(|k| *k != root).collect();
            if v.is_empty() && tg != want {
                v.push(format!("{}.search_edges targets {:?} are not search_nodes without the root {:?}", name, tg, want));
            }
            for (s, d, e) in es {
                if !m.has_edge(*s, *d, *e) {
                    v.push(format!("{}.search_edges: ({},{},e{}) is not an edge of the graph", name, s, d, e.id));
                } else if !pred.accepts(*s, *d, *e) {
                    v.push(format!("{}.search_edges: ({},{},e{}) is rejected by the filter", name, s, d, e.id));
                }
            }
        }
        Ok(_) => v.push("harness: wrong output kind".into()),
    }
    v
}

// ------------------------------------------------------------ per-property evaluation of one graph

fn preds_for<F: Flav>(g: &GraphCase<F>, rng: &mut Rng, exhaustive: bool, transposed: bool) -> Vec<Pred> {
    let ne = g.edges.len();
    let mut v = vec![Pred::All];
    if exhaustive && ne <= 6 {
        for mask in 1u32..(1 << ne) {
            v.push(Pred::Ids((0..ne as u32).filter(|i| mask & (1 << i) != 0).map(|i| i + 1).collect()));
        }
    } else {
        for _ in 0..4 {
            let mut ids = vec![];
            for i in 0..ne as u32 {
                if rng.chance(1, 3) {
                    ids.push(i + 1);
                }
            }
            v.push(Pred::Ids(ids));
        }
    }
    // direction-dependent predicates over (source, target, value)
    let mut halves: Vec<(K, K, u32)> = vec![];
    for u in 0..g.m.n {
        for (d, e) in &g.m.out[u] {
            if transposed {
                halves.push((*d, u as K, e.id));
            } else {
                halves.push((u as K, *d, e.id));
            }
        }
    }
    if !halves.is_empty() {
        for _ in 0..(if exhaustive { 3 } else { 2 }) {
            let t: Vec<(K, K, u32)> = halves.iter().copied().filter(|_| rng.chance(1, 3)).collect();
            v.push(Pred::Triples(t));
        }
    }
    v
}

pub struct EvalCtx<'a> {
    pub prop: &'a str,
    pub exhaustive: bool,
    pub rng: Rng,
    pub pairs_cap: usize,
    /// nodes that sampled roots / targets are drawn from first (large structured graphs)
    pub focus: Vec<K>,
}

fn viol<F: Flav>(rep: &mut Report, prop: &str, g: &GraphCase<F>, cfgs: &str, root: K, target: Option<K>, pred: &Pred, msgs: &[String]) {
    let cls: String = msgs[0].chars().filter(|c| !c.is_ascii_digit()).take(60).collect();
    let key = format!("{}|{}|{}", F::NAME, cfgs, cls);
    rep.violation(
        prop,
        key,
        format!("[{}] graph connects={:?} prios={:?} root={} target={:?} {} {}: {}", F::NAME, g.edges, g.prios, root, target, cfgs, pred.short(), msgs.join("; ")),
        json!({"kind":"search","prop":prop,"flavour":F::NAME,"prios":g.prios,"connects":g.edges,"root":root,"target":target,"config":cfgs,
               "pred": match pred { Pred::All => json!("all"), Pred::Ids(v) => json!({"ids":v}), Pred::Triples(t) => json!({"triples":t}) }}),
    );
}

fn roots_targets(n: usize, ctx: &mut EvalCtx) -> Vec<(K, K)> {
    if !ctx.focus.is_empty() {
        // large graph: root = first focus node, targets = other focus nodes + one random
        let r = ctx.focus[0];
        let mut v: Vec<(K, K)> = ctx.focus[1..].iter().filter(|t| **t != r).map(|t| (r, *t)).collect();
        let t = ctx.rng.below(n) as K;
        if t != r {
            v.push((r, t));
        }
        let r2 = ctx.rng.below(n) as K;
        let t2 = ctx.rng.below(n) as K;
        if r2 != t2 {
            v.push((r2, t2));
        }
        return v;
    }
    let mut v = vec![];
    for r in 0..n as K {
        for t in 0..n as K {
            if r != t {
                v.push((r, t));
            }
        }
    }
    if v.len() > ctx.pairs_cap {
        ctx.rng.shuffle(&mut v);
        v.truncate(ctx.pairs_cap);
    }
    v
}

fn some_roots(n: usize, ctx: &mut EvalCtx) -> Vec<K> {
    if !ctx.focus.is_empty() {
        let mut v = vec![ctx.focus[0], ctx.rng.below(n) as K];
        v.dedup();
        return v;
    }
    let mut v: Vec<K> = (0..n as K).collect();
    if v.len() > ctx.pairs_cap {
        ctx.rng.shuffle(&mut v);
        v.truncate(ctx.pairs_cap);
    }
    v
}

fn nontrivial<F: Flav>(rep: &mut Report, g: &GraphCase<F>, tag: &str) {
    if !g.edges.is_empty() {
        rep.distinct(fnv_str(&format!("{}|{:?}|{:?}|{}", F::NAME, g.edges, g.prios, tag)));
    }
}

pub fn eval_graph<F: Flav>(g: &GraphCase<F>, ctx: &mut EvalCtx, rep: &mut Report) {
    rep.count("graphs");
    rep.count(&format!("{}.graphs", F::NAME));
    if g.edges.iter().any(|(a, b)| a == b) {
        rep.count("graphs_with_selfloop");
    }
    {
        let mut s = HashSet::new();
        if g.edges.iter().any(|e| !s.insert(*e)) {
            rep.count("graphs_with_parallel_edges");
        }
    }
    eval_graph_dir::<F>(g, ctx, rep, false);
    if F::DIRECTED {
        // the same oracles on the transposed configurations, judged against the reversed model
        eval_graph_dir::<F>(g, ctx, rep, true);
    }
}

fn eval_graph_dir<F: Flav>(g: &GraphCase<F>, ctx: &mut EvalCtx, rep: &mut Report, tr: bool) {
    let n = g.w.n();
    let gm = g.model(tr);
    match ctx.prop {
        "C04" | "C05" => {
            let algo = if ctx.prop == "C04" { Algo::Bfs } else { Algo::Dfs };
            let preds = preds_for(g, &mut ctx.rng, ctx.exhaustive, tr);
            for (r, t) in roots_targets(n, ctx) {
                for (pi, p) in preds.iter().enumerate() {
                    let m = check_target_search::<F>(g, algo, tr, r, t, p, pi % 2 == 0, rep);
                    nontrivial(rep, g, &format!("{}>{}|{}", r, t, p.short()));
                    if !m.is_empty() {
                        viol(rep, ctx.prop, g, &format!("{}.search_path/search", algo_name(algo)), r, Some(t), p, &m);
                    }
                }
            }
        }
        "C06" => {
            let preds = preds_for(g, &mut ctx.rng, ctx.exhaustive && g.edges.len() <= 3, tr);
            for algo in [Algo::PfsMin, Algo::PfsMax] {
                for r in some_roots(n, ctx) {
                    for (pi, p) in preds.iter().enumerate() {
                        // (i) expansion order on a full traversal (no target)
                        let mut cfg = Cfg::new(algo, Mode::Path);
                        cfg.transpose = tr;
                        cfg.meth = if p.is_all() { Meth::ForEach } else { Meth::Filter };
                        let run = run_search::<F>(&g.w, r, &cfg, p);
                        rep.count("evaluations");
                        let mut m = run.errs.clone();
                        match &run.out {
                            Err(e) => m.push(format!("{} traversal panicked: {}", algo_name(algo), e)),
                            Ok(_) => m.extend(check_pfs_order(gm, &g.prios, r, algo == Algo::PfsMax, &run.log, p)),
                        }
                        let blocks = {
                            let mut b = 0;
                            let mut last = None;
                            for l in &run.log {
                                if Some(l.0) != last {
                                    b += 1;
                                    last = Some(l.0);
                                }
                            }
                            b
                        };
                        if blocks >= 3 {
                            rep.count("pfs_traversals_with_ge3_expansions");
                        }
                        nontrivial(rep, g, &format!("{:?}|{}|{}", algo, r, p.short()));
                        if !m.is_empty() {
                            viol(rep, "C06", g, &format!("{} expansion order", algo_name(algo)), r, None, p, &m);
                        }
                        // (ii) target search
                        let targets: Vec<K> = if !ctx.focus.is_empty() { ctx.focus.clone() } else if n > 12 { (0..4).map(|_| ctx.rng.below(n) as K).collect() } else { (0..n as K).collect() };
                        for t in targets {
                            if t == r {
                                continue;
                            }
                            let m = check_target_search::<F>(g, algo, tr, r, t, p, pi % 2 == 0, rep);
                            if !m.is_empty() {
                                viol(rep, "C06", g, &format!("{}.search_path/search", algo_name(algo)), r, Some(t), p, &m);
                            }
                            // expansion order also holds on the prefix run with a target
                            let mut cfg = Cfg::new(algo, Mode::Path);
                        cfg.transpose = tr;
                            cfg.target = Some(t);
                            cfg.meth = Meth::Filter;
                            let run = run_search::<F>(&g.w, r, &cfg, p);
                            rep.count("evaluations");
                            if run.out.is_ok() {
                                let m = check_pfs_order(gm, &g.prios, r, algo == Algo::PfsMax, &run.log, p);
                                if !m.is_empty() {
                                    viol(rep, "C06", g, &format!("{} expansion order (with target)", algo_name(algo)), r, Some(t), p, &m);
                                }
                            }
                        }
                    }
                }
            }
        }
        "C07" => {
            let preds = preds_for(g, &mut ctx.rng, ctx.exhaustive && g.edges.len() <= 3, tr);
            let mut cfgs: Vec<Cfg> = vec![];
            for algo in [Algo::Bfs, Algo::Dfs, Algo::PfsMin, Algo::PfsMax] {
                cfgs.push(Cfg::new(algo, Mode::Search));
                cfgs.push(Cfg::new(algo, Mode::Path));
            }
            for algo in [Algo::Pre, Algo::Post] {
                cfgs.push(Cfg::new(algo, Mode::Nodes));
                cfgs.push(Cfg::new(algo, Mode::Edges));
            }
            for r in some_roots(n, ctx) {
                for c in &cfgs {
                    // for_each, no target
                    let mut cfg = *c;
                    cfg.transpose = tr;
                    cfg.meth = Meth::ForEach;
                    let run = run_search::<F>(&g.w, r, &cfg, &Pred::All);
                    rep.count("evaluations");
                    let mut m = run.errs.clone();
                    match &run.out {
                        Err(e) => m.push(format!("{} panicked: {}", cfg.short(), e)),
                        Ok(_) => m.extend(check_foreach_once(gm, r, &run.log, &cfg.short())),
                    }
                    if run.log.len() >= 3 {
                        rep.count("foreach_logs_ge3_calls");
                    }
                    nontrivial(rep, g, &format!("fe|{}|{}", cfg.short(), r));
                    if !m.is_empty() {
                        viol(rep, "C07", g, &format!("{} for_each", cfg.short()), r, None, &Pred::All, &m);
                    }
                }
                // filters: rejected edges never appear in any result; results only through accepted edges
                for p in preds.iter().filter(|p| !p.is_all()) {
                    let a = acc(p);
                    let reach = gm.reach(r, &a);
                    let mut all_cfgs: Vec<Cfg> = vec![];
                    let targets: Vec<K> = if !ctx.focus.is_empty() { ctx.focus.clone() } else if n > 12 { (0..4).map(|_| ctx.rng.below(n) as K).collect() } else { (0..n as K).collect() };
                    for algo in [Algo::Bfs, Algo::Dfs, Algo::PfsMin, Algo::PfsMax] {
                        for t in targets.iter().copied() {
                            if t != r {
                                let mut c = Cfg::new(algo, Mode::Path);
                                c.target = Some(t);
                                all_cfgs.push(c);
                                c.mode = Mode::Search;
                                all_cfgs.push(c);
                            }
                        }
                        all_cfgs.push(Cfg::new(algo, Mode::Cycle));
                    }
                    for algo in [Algo::Pre, Algo::Post] {
                        all_cfgs.push(Cfg::new(algo, Mode::Nodes));
                        all_cfgs.push(Cfg::new(algo, Mode::Edges));
                    }
                    for c in all_cfgs {
                        let mut cfg = c;
                        cfg.transpose = tr;
                        cfg.meth = Meth::Filter;
                        let run = run_search::<F>(&g.w, r, &cfg, p);
                        rep.count("evaluations");
                        let mut m = run.errs.clone();
                        let rejected = |e: &PEdge| !p.accepts(e.0, e.1, e.2);
                        match &run.out {
                            Err(e) => {
                                // panics of target / cycle searches are owned by C04-C06 / C09
                                if matches!(cfg.mode, Mode::Nodes | Mode::Edges) {
                                    m.push(format!("{} panicked: {}", cfg.short(), e));
                                }
                            }
                            Ok(PlainOut::Path(Some(pp))) => {
                                for e in pp.edges.iter().filter(|e| rejected(e)) {
                                    m.push(format!("{}: result contains rejected edge ({},{},e{})", cfg.short(), e.0, e.1, e.2.id));
                                }
                                if cfg.mode == Mode::Path && !reach[cfg.target.unwrap() as usize] {
                                    m.push(format!("{}: found target {} that is unreachable through accepted edges", cfg.short(), cfg.target.unwrap()));
                                }
                                if cfg.mode == Mode::Cycle && gm.shortest_cycle(r, &a).is_none() {
                                    m.push(format!("{}: found a cycle although none exists through accepted edges", cfg.short()));
                                }
                            }
                            Ok(PlainOut::Node(Some(k))) => {
                                if !reach[*k as usize] {
                                    m.push(format!("{}: found node {} that is unreachable through accepted edges", cfg.short(), k));
                                }
                            }
                            Ok(PlainOut::Node(None)) | Ok(PlainOut::Path(None)) => {
                                // reachability is decided in the graph of accepted edges only: a rejected edge must not hide a target
                                if let (Mode::Search | Mode::Path, Some(t)) = (cfg.mode, cfg.target) {
                                    if reach[t as usize] {
                                        m.push(format!("{}: target {} is reachable through accepted edges but was not found", cfg.short(), t));
                                    }
                                }
                            }
                            Ok(PlainOut::Nodes(ns)) => {
                                for k in ns {
                                    if !reach[*k as usize] {
                                        m.push(format!("{}: ordering contains node {} that is unreachable through accepted edges", cfg.short(), k));
                                    }
                                }
                            }
                            Ok(PlainOut::Edges(es)) => {
                                for e in es.iter().filter(|e| rejected(e)) {
                                    m.push(format!("{}: result contains rejected edge ({},{},e{})", cfg.short(), e.0, e.1, e.2.id));
                                }
                            }
                            _ => {}
                        }
                        // the closure itself only ever sees true edges
                        for l in &run.log {
                            if !gm.has_edge(l.0, l.1, l.2) {
                                m.push(format!("{}: filter called with ({},{},e{}) which is not an edge", cfg.short(), l.0, l.1, l.2.id));
                            }
                        }
                        rep.count("filtered_searches");
                        if !m.is_empty() {
                            viol(rep, "C07", g, &format!("{} filter", cfg.short()), r, cfg.target, p, &m);
                        }
                    }
                }
            }
        }
        "C09" => {
            let preds = preds_for(g, &mut ctx.rng, ctx.exhaustive, tr);
            for algo in [Algo::Bfs, Algo::Dfs, Algo::PfsMin, Algo::PfsMax] {
                for r in some_roots(n, ctx) {
                    for (pi, p) in preds.iter().enumerate() {
                        let mut cfg = Cfg::new(algo, Mode::Cycle);
                        cfg.transpose = tr;
                        cfg.meth = meth_for(p, pi % 2 == 0);
                        if pi % 3 == 2 {
                            // a target set earlier on the same builder: search_cycle still looks for the root
                            cfg.target = Some(((r as usize + 1 + pi) % n) as K);
                            rep.count("cycle_searches_with_preset_target");
                        }
                        let run = run_search::<F>(&g.w, r, &cfg, p);
                        rep.count("evaluations");
                        let mut m = run.errs.clone();
                        m.extend(check_cycle(gm, F::DIRECTED, algo, r, p, &run.out, rep));
                        nontrivial(rep, g, &format!("cy|{:?}|{}|{}", algo, r, p.short()));
                        if !m.is_empty() {
                            viol(rep, "C09", g, &format!("{}.search_cycle", algo_name(algo)), r, None, p, &m);
                        }
                    }
                }
            }
        }
        "C10" => {
            let preds = preds_for(g, &mut ctx.rng, ctx.exhaustive, tr);
            for algo in [Algo::Pre, Algo::Post] {
                for r in some_roots(n, ctx) {
                    for (pi, p) in preds.iter().enumerate() {
                        let mut c1 = Cfg::new(algo, Mode::Nodes);
                        c1.transpose = tr;
                        c1.meth = meth_for(p, pi % 2 == 0);
                        let mut c2 = c1;
                        c2.mode = Mode::Edges;
                        let r1 = run_search::<F>(&g.w, r, &c1, p);
                        let r2 = run_search::<F>(&g.w, r, &c2, p);
                        rep.add("evaluations", 2);
                        let mut m = r1.errs.clone();
                        m.extend(r2.errs.iter().cloned());
                        m.extend(check_order(gm, algo, r, p, &r1.out, &r2.out, rep));
                        nontrivial(rep, g, &format!("or|{:?}|{}|{}", algo, r, p.short()));
                        if !m.is_empty() {
                            viol(rep, "C10", g, &format!("{} order", algo_name(algo)), r, None, p, &m);
                        }
                    }
                }
            }
        }
        _ => panic!("harness: eval_graph called for {}", ctx.prop),
    }
}

// ------------------------------------------------------------ C08: differential against the reversed instance

pub fn all_search_cfgs(n: usize, root: K) -> Vec<Cfg> {
    let mut v = vec![];
    for algo in [Algo::Bfs, Algo::Dfs, Algo::PfsMin, Algo::PfsMax] {
        for t in 0..n as K {
            if t != root {
                for mode in [Mode::Search, Mode::Path] {
                    let mut c = Cfg::new(algo, mode);
                    c.target = Some(t);
                    v.push(c);
                }
            }
        }
        v.push(Cfg::new(algo, Mode::Cycle));
        v.push(Cfg::new(algo, Mode::Path)); // no target: full traversal
    }
    for algo in [Algo::Pre, Algo::Post] {
        v.push(Cfg::new(algo, Mode::Nodes));
        v.push(Cfg::new(algo, Mode::Edges));
    }
    v
}

pub fn eval_c08<F: Flav>(prios: &[i32], edges: &[(K, K)], ctx: &mut EvalCtx, rep: &mut Report) {
    let g = match build::<F>(prios, edges) {
        Ok(g) => g,
        Err(e) => {
            rep.inconclusive.push(format!("graph unobservable: {}", e));
            return;
        }
    };
    let redges: Vec<(K, K)> = edges.iter().map(|(a, b)| (*b, *a)).collect();
    let gr = match build::<F>(prios, &redges) {
        Ok(g) => g,
        Err(e) => {
            rep.inconclusive.push(format!("reversed graph unobservable: {}", e));
            return;
        }
    };
    rep.count("graphs");
    rep.count(&format!("{}.graphs", F::NAME));
    if edges.iter().any(|(a, b)| a == b) {
        rep.count("graphs_with_selfloop");
    }
    {
        let mut s = HashSet::new();
        if edges.iter().any(|e| !s.insert(*e)) {
            rep.count("graphs_with_parallel_edges");
        }
    }
    // premise of the differential: the reversed instance's ordered out/in lists are the original's in/out lists
    if gr.m.out != g.m.inn || gr.m.inn != g.m.out {
        rep.inconclusive.push("reversed instance is not the list-wise reverse (harness premise)".into());
        return;
    }
    let n = g.w.n();
    let preds = preds_for(&g, &mut ctx.rng, ctx.exhaustive && edges.len() <= 3, true);
    for r in some_roots(n, ctx) {
        let mut cfgs = all_search_cfgs(n, r);
        if !ctx.focus.is_empty() {
            // large graph: targets from the focus set only
            let focus = ctx.focus.clone();
            cfgs.retain(|c| c.target.map_or(true, |t| focus.contains(&t)));
        } else if n > 12 {
            let keep: Vec<K> = (0..4).map(|_| ctx.rng.below(n) as K).collect();
            cfgs.retain(|c| c.target.map_or(true, |t| keep.contains(&t)));
        }
        for c in cfgs {
            for (pi, p) in preds.iter().enumerate() {
                for meth in [Meth::Filter, Meth::ForEach, Meth::None] {
                    if meth != Meth::Filter && pi != 0 {
                        continue;
                    }
                    let mut ct = c;
                    ct.transpose = true;
                    // transpose() configures, it does not toggle: called twice it is still transposed
                    ct.twice = (pi + r as usize) % 4 == 3 || meth == Meth::None && r % 2 == 1;
                    if ct.twice {
                        rep.count("double_transpose_configurations");
                    }
                    ct.meth = meth;
                    let mut cp = c;
                    cp.meth = meth;
                    let rt = run_search::<F>(&g.w, r, &ct, p);
                    let rp = run_search::<F>(&gr.w, r, &cp, p);
                    rep.add("evaluations", 2);
                    rep.count("differential_pairs");
                    let mut m = vec![];
                    m.extend(rt.errs.iter().cloned());
                    match (&rt.out, &rp.out) {
                        (Ok(a), Ok(b)) => {
                            if a != b {
                                m.push(format!("transposed result {:?} differs from the plain result on the reversed graph {:?}", brief_out(a), brief_out(b)));
                            }
                            if !matches!(a, PlainOut::Node(None) | PlainOut::Path(None)) {
                                rep.count("differential_pairs_with_result");
                            }
                        }
                        (Err(a), Ok(_)) => m.push(format!("transposed search panicked ({}) while the plain search on the reversed graph returned", a)),
                        (Ok(_), Err(_)) | (Err(_), Err(_)) => {
                            // the plain search is broken on this input: not an orientation matter, owned by C04-C10
                            rep.count("differential_skipped_plain_panics");
                        }
                    }
                    if rt.log != rp.log && rp.out.is_ok() {
                        m.push(format!("closure call sequence differs: transposed {:?} vs reversed graph {:?}", brief_log(&rt.log), brief_log(&rp.log)));
                    }
                    // reported orientation: every edge shown in transposed mode is a stored edge u->v shown as (v,u,e)
                    for l in &rt.log {
                        if !g.m.has_edge(l.1, l.0, l.2) {
                            m.push(format!("transposed traversal reported ({},{},e{}) but {}->{} e{} is not stored", l.0, l.1, l.2.id, l.1, l.0, l.2.id));
                        }
                    }
                    nontrivial(rep, &g, &format!("T|{}|{}|{}|{:?}", ct.short(), r, p.short(), meth));
                    if !m.is_empty() {
                        viol(rep, "C08", &g, &format!("{} vs reversed graph", ct.short()), r, c.target, p, &m);
                    }
                }
            }
            // without transpose() no incoming edge is ever followed
            let mut cp = c;
            cp.meth = Meth::ForEach;
            let run = run_search::<F>(&g.w, r, &cp, &Pred::All);
            rep.count("evaluations");
            let mut m = vec![];
            for l in &run.log {
                if !g.m.has_edge(l.0, l.1, l.2) {
                    m.push(format!("non-transposed traversal reported ({},{},e{}) which is not a stored out-edge in stored orientation", l.0, l.1, l.2.id));
                }
            }
            if !m.is_empty() {
                viol(rep, "C08", &g, &format!("{} follows only outgoing edges", cp.short()), r, c.target, &Pred::All, &m);
            }
        }
    }
}

fn brief_out(o: &PlainOut) -> String {
    match o {
        PlainOut::Node(n) => format!("node {:?}", n),
        PlainOut::Path(None) => "no path".into(),
        PlainOut::Path(Some(p)) => format!("path {:?}", p.edges.iter().map(|e| (e.0, e.1, e.2.id)).collect::<Vec<_>>()),
        PlainOut::Nodes(v) => format!("nodes {:?}", v),
        PlainOut::Edges(v) => format!("edges {:?}", v.iter().map(|e| (e.0, e.1, e.2.id)).collect::<Vec<_>>()),
    }
}

fn brief_log(l: &[PEdge]) -> Vec<(K, K, u32)> {
    l.iter().take(12).map(|e| (e.0, e.1, e.2.id)).collect()
}

// ------------------------------------------------------------ C06(iii): node comparison table

pub fn eval_cmp<F: Flav>(rep: &mut Report) {
    use std::cmp::Ordering as O;
    let reg = Registry::new();
    let vals = [-1, 0, 7];
    let keys: [K; 3] = [0, 1, 2];
    let mut nodes = vec![];
    for k in keys {
        for v in vals {
            nodes.push((k, v, F::node(k, reg.mk(v))));
        }
    }
    for (ka, va, a) in &nodes {
        for (kb, vb, b) in &nodes {
            rep.count("evaluations");
            rep.count("comparison_pairs");
            rep.distinct(fnv_str(&format!("cmp|{}|{}|{}|{}|{}", F::NAME, ka, va, kb, vb)));
            let want = va.cmp(vb);
            let mut m = vec![];
            match catch(|| (F::node_eq(a, b), F::node_cmp(a, b))) {
                Err(p) => m.push(format!("comparison panicked: {}", p)),
                Ok((eq, (lt, le, gt, ge, c, pc))) => {
                    if eq != (ka == kb) {
                        m.push(format!("a == b is {} for keys {} and {}", eq, ka, kb));
                    }
                    if c != want {
                        m.push(format!("cmp = {:?}, values compare {:?}", c, want));
                    }
                    if pc != Some(want) {
                        m.push(format!("partial_cmp = {:?}, values compare {:?}", pc, want));
                    }
                    if lt != (want == O::Less) || le != (want != O::Greater) || gt != (want == O::Greater) || ge != (want != O::Less) {
                        m.push(format!("operators (<,<=,>,>=) = ({},{},{},{}) but values compare {:?}", lt, le, gt, ge, want));
                    }
                }
            }
            if !m.is_empty() {
                let key = format!("{}|node comparison|{}", F::NAME, m[0].chars().filter(|c| !c.is_ascii_digit()).take(40).collect::<String>());
                rep.violation(
                    "C06",
                    key,
                    format!("[{}] nodes (key {}, value {}) vs (key {}, value {}): {}", F::NAME, ka, va, kb, vb, m.join("; ")),
                    json!({"kind":"cmp","flavour":F::NAME,"a":[ka,va],"b":[kb,vb]}),
                );
            }
        }
    }
}

// ------------------------------------------------------------ enumeration + random drivers

/// Decodes graph number `idx` with exactly `ne` edges over `n` nodes.
fn decode(n: usize, ne: usize, mut idx: u64) -> Vec<(K, K)> {
    let base = (n * n) as u64;
    let mut v = vec![];
    for _ in 0..ne {
        let p = idx % base;
        idx /= base;
        v.push(((p / n as u64) as K, (p % n as u64) as K));
    }
    v
}

pub struct SearchCfgRun {
    pub prop: String,
    pub bounds: Vec<(usize, usize)>, // (nodes, max edges)
    pub random_graphs: u64,
    pub shard: u64,
    pub nshards: u64,
    pub seed: u64,
    /// evaluate only every k-th enumerated graph of the larger sizes (1 = all)
    pub stride: u64,
}

fn prio_sets(prop: &str, n: usize, idx: u64) -> Vec<Vec<i32>> {
    if prop == "C06" {
        // all assignments from {0,1,2}^n for n<=3, a rotating sample beyond
        let total = 3u64.pow(n as u32);
        let pick: Vec<u64> = if n <= 3 { (0..total).collect() } else { (0..6).map(|i| (idx * 7 + i * 13) % total).collect() };
        pick.iter()
            .map(|c| {
                let mut c = *c;
                (0..n)
                    .map(|_| {
                        let d = (c % 3) as i32;
                        c /= 3;
                        d
                    })
                    .collect()
            })
            .collect()
    } else {
        // two assignments varying with the graph index (ties included)
        let a: Vec<i32> = (0..n).map(|i| ((idx + i as u64 * 5) % 3) as i32).collect();
        let b: Vec<i32> = (0..n).map(|i| ((idx / 3 + i as u64) % 2) as i32).collect();
        if matches!(prop, "C07" | "C08" | "C09") {
            vec![a, b]
        } else {
            vec![a]
        }
    }
}

pub fn run_enumeration<F: Flav>(rc: &SearchCfgRun, rep: &mut Report) {
    let mut ctx = EvalCtx {
        prop: &rc.prop,
        exhaustive: true,
        rng: Rng::new(rc.seed ^ 0xabcdef),
        pairs_cap: 64,
        focus: vec![],
    };
    let mut done: HashSet<(usize, usize)> = HashSet::new();
    let mut gidx: u64 = 0;
    for (n, maxe) in &rc.bounds {
        for ne in 0..=*maxe {
            if !done.insert((*n, ne)) {
                continue;
            }
            let total = ((n * n) as u64).pow(ne as u32);
            for idx in 0..total {
                gidx += 1;
                if gidx % rc.nshards != rc.shard {
                    continue;
                }
                let edges = decode(*n, ne, idx);
                for prios in prio_sets(&rc.prop, *n, idx) {
                    if rc.prop == "C08" {
                        eval_c08::<F>(&prios, &edges, &mut ctx, rep);
                    } else {
                        match build::<F>(&prios, &edges) {
                            Ok(g) => {
                                if rep.samples.len() < 2 && edges.len() >= 3 && idx % 97 == 5 {
                                    rep.sample(json!({"enumerated_graph": g.json()}));
                                }
                                eval_graph::<F>(&g, &mut ctx, rep)
                            }
                            Err(e) => rep.inconclusive.push(format!("graph unobservable: {}", e)),
                        }
                    }
                }
                if rep.total_violations() > 400 {
                    rep.notes.push("enumeration stopped early: more than 400 violations".into());
                    return;
                }
            }
        }
    }
    rep.count("enumerations_completed");
}

pub fn random_graph(rng: &mut Rng) -> (usize, Vec<(K, K)>, &'static str) {
    let n = 3 + rng.below(38);
    let fam = rng.below(6);
    let mut e: Vec<(K, K)> = vec![];
    let k = |rng: &mut Rng| rng.below(n) as K;
    let name;
    match fam {
        0 => {
            name = "sparse";
            for _ in 0..(n + rng.below(n)) {
                e.push((k(rng), k(rng)));
            }
        }
        1 => {
            name = "dense";
            let cnt = (n * n / 4).min(150);
            for _ in 0..cnt {
                e.push((k(rng), k(rng)));
            }
        }
        2 => {
            name = "dag";
            for _ in 0..(2 * n) {
                let a = k(rng);
                let b = k(rng);
                if a < b {
                    e.push((a, b));
                } else if b < a {
                    e.push((b, a));
                }
            }
        }
        3 => {
            name = "cycle-with-chords";
            for i in 0..n {
                e.push((i as K, ((i + 1) % n) as K));
            }
            for _ in 0..rng.below(n) {
                e.push((k(rng), k(rng)));
            }
        }
        4 => {
            name = "disconnected";
            let half = (n / 2).max(1);
            for _ in 0..n {
                e.push((rng.below(half) as K, rng.below(half) as K));
            }
            for _ in 0..n {
                e.push(((half + rng.below(n - half)) as K, (half + rng.below(n - half)) as K));
            }
        }
        _ => {
            name = "star-with-parallel";
            let c = k(rng);
            for i in 0..n {
                if rng.chance(1, 2) {
                    e.push((c, i as K));
                } else {
                    e.push((i as K, c));
                }
                if rng.chance(1, 4) {
                    e.push((c, i as K));
                }
            }
        }
    }
    rng.shuffle(&mut e);
    (n, e, name)
}

/// Large structured graphs (hundreds to thousands of nodes): depth, width and
/// tree-size regimes that small enumeration and 40-node random graphs never reach.
pub fn large_graph(rng: &mut Rng) -> (usize, Vec<(K, K)>, &'static str) {
    let mut e: Vec<(K, K)> = vec![];
    let fam = rng.below(7);
    let name;
    let n;
    // a small random gadget (cross / back / forward edges, dead ends) hung onto node `at`, using fresh nodes from `base`
    fn gadget(rng: &mut Rng, e: &mut Vec<(K, K)>, at: K, base: K, back_to: K) -> K {
        let g = 3 + rng.below(4) as K;
        e.push((at, base));
        for _ in 0..(g + 2 + rng.below(5) as K) {
            let a = base + rng.below(g as usize) as K;
            let b = base + rng.below(g as usize) as K;
            e.push((a, b));
        }
        // a dead end first, then the way back (order matters for depth-first searches)
        e.push((at, base + g));
        if rng.chance(2, 3) {
            e.push((base + rng.below(g as usize) as K, back_to));
        }
        if rng.chance(1, 2) {
            e.push((at, back_to));
        }
        base + g + 1
    }
    match fam {
        0 => {
            name = "long-chain+gadget";
            let l = 130 + rng.below(1300);
            for i in 0..l {
                e.push((i as K, i as K + 1));
            }
            n = gadget(rng, &mut e, l as K, l as K + 1, 0) as usize;
        }
        1 => {
            name = "ring";
            let l = 70 + rng.below(2600);
            for i in 0..l {
                e.push((i as K, ((i + 1) % l) as K));
            }
            for _ in 0..rng.below(4) {
                e.push((rng.below(l) as K, rng.below(l) as K));
            }
            n = l;
        }
        2 => {
            name = "grid";
            let w = 8 + rng.below(33);
            let h = 8 + rng.below(33);
            for y in 0..h {
                for x in 0..w {
                    let v = (y * w + x) as K;
                    if x + 1 < w {
                        e.push((v, v + 1));
                        if rng.chance(1, 2) {
                            e.push((v + 1, v));
                        }
                    }
                    if y + 1 < h {
                        e.push((v, v + w as K));
                        if rng.chance(1, 2) {
                            e.push((v + w as K, v));
                        }
                    }
                }
            }
            n = w * h;
        }
        3 => {
            name = "wide-star+cycle";
            // root 0 -> 1 -> 0 first, then many dead-end successors (large edge tree, cycle through the first edge)
            let spokes = 60 + rng.below(200);
            e.push((0, 1));
            e.push((1, 0));
            for i in 0..spokes {
                e.push((0, 2 + i as K));
                if rng.chance(1, 10) {
                    e.push((2 + i as K, 1));
                }
            }
            n = spokes + 2;
        }
        4 => {
            name = "deep-tree+cross-edges";
            let l = 260 + rng.below(300);
            for i in 0..l {
                e.push((i as K, i as K + 1));
            }
            // X -> a, X -> b, a -> b style gadgets below the deep path
            let x = l as K;
            let (a, b, d, f) = (x + 1, x + 2, x + 3, x + 4);
            e.push((x, a));
            e.push((x, b));
            if rng.chance(1, 2) {
                e.push((a, b));
            } else {
                e.push((a, d));
                e.push((a, f));
                e.push((d, b));
            }
            n = (x + 5) as usize;
        }
        5 => {
            name = "corridor-with-loops";
            let l = 20 + rng.below(60);
            let mut next = l as K + 1;
            for i in 0..l {
                e.push((i as K, i as K + 1));
                if rng.chance(1, 3) {
                    // a loop through a fresh node back to i, inserted before or after the way forward
                    let x = next;
                    next += 1;
                    if rng.chance(1, 2) {
                        let last = e.pop().unwrap();
                        e.push((i as K, x));
                        e.push((x, i as K));
                        e.push(last);
                    } else {
                        e.push((i as K, x));
                        e.push((x, i as K));
                    }
                }
            }
            n = next as usize;
        }
        _ => {
            name = "fan-with-sibling-chain";
            // root -> 1..=f ; i -> i+1 (a longer, later way into every sibling) ; i -> private child f+i.
            // Any node that a search forgets it has seen is re-entered through its sibling and its
            // child is then reached by a non-shortest / repeated route.
            let f = 20 + rng.below(130);
            for i in 1..=f {
                e.push((0, i as K));
            }
            for i in 1..f {
                e.push((i as K, i as K + 1));
            }
            for i in 1..=f {
                e.push((i as K, (f + i) as K));
            }
            n = 2 * f + 1;
        }
    }
    (n, e, name)
}

pub fn run_large<F: Flav>(rc: &SearchCfgRun, rep: &mut Report, rng: &mut Rng, count: u64) {
    let mut ctx = EvalCtx {
        prop: &rc.prop,
        exhaustive: false,
        rng: rng.fork(),
        pairs_cap: 3,
        focus: vec![],
    };
    for gi in 0..count {
        let (n, edges, fam) = large_graph(rng);
        let prios: Vec<i32> = (0..n).map(|_| rng.below(7) as i32).collect();
        rep.count("large_graphs");
        rep.count(&format!("large_family.{}", fam));
        crate::core::watchdog::tick(|| format!("{} large graph {} n={} edges={}", F::NAME, fam, n, edges.len()));
        if gi == 0 {
            rep.sample(json!({"large_graph":{"flavour":F::NAME,"family":fam,"nodes":n,"edges":edges.len()}}));
        }
        ctx.focus = vec![0, (n - 1) as K, (n / 2) as K];
        if fam == "fan-with-sibling-chain" {
            // many of the private children as targets
            let f = (n - 1) / 2;
            for _ in 0..24 {
                ctx.focus.push((f + 1 + rng.below(f)) as K);
            }
        }
        if rc.prop == "C08" {
            eval_c08::<F>(&prios, &edges, &mut ctx, rep);
        } else {
            match build::<F>(&prios, &edges) {
                Ok(g) => eval_graph::<F>(&g, &mut ctx, rep),
                Err(e) => rep.inconclusive.push(format!("graph unobservable: {}", e)),
            }
        }
        ctx.focus.clear();
        if rep.total_violations() > 400 {
            return;
        }
    }
}

pub fn run_random<F: Flav>(rc: &SearchCfgRun, rep: &mut Report, rng: &mut Rng) {
    let mut ctx = EvalCtx {
        prop: &rc.prop,
        exhaustive: false,
        rng: rng.fork(),
        pairs_cap: if matches!(rc.prop.as_str(), "C04" | "C05") { 20 } else { 5 },
        focus: vec![],
    };
    for gi in 0..rc.random_graphs {
        let (n, edges, fam) = random_graph(rng);
        let wide = gi % 2 == 1;
        let prios: Vec<i32> = (0..n).map(|_| if wide { rng.below(2001) as i32 - 1000 } else { rng.below(5) as i32 }).collect();
        rep.count("random_graphs");
        rep.count(&format!("random_family.{}", fam));
        if gi == 0 {
            rep.sample(json!({"random_graph":{"flavour":F::NAME,"family":fam,"nodes":n,"edges":edges.len(),"first_connects":edges.iter().take(12).collect::<Vec<_>>()}}));
        }
        if rc.prop == "C08" {
            eval_c08::<F>(&prios, &edges, &mut ctx, rep);
        } else {
            match build::<F>(&prios, &edges) {
                Ok(g) => eval_graph::<F>(&g, &mut ctx, rep),
                Err(e) => rep.inconclusive.push(format!("graph unobservable: {}", e)),
            }
        }
        if rep.total_violations() > 400 {
            return;
        }
    }
}

/// Re-executes a recorded search violation verbosely.
pub fn replay<F: Flav>(v: &serde_json::Value) -> bool {
    let prop = v["prop"].as_str().unwrap_or("C04").to_string();
    let prios: Vec<i32> = v["prios"].as_array().map(|a| a.iter().map(|x| x.as_i64().unwrap_or(0) as i32).collect()).unwrap_or_default();
    let edges: Vec<(K, K)> = v["connects"]
        .as_array()
        .map(|a| a.iter().map(|x| (x[0].as_u64().unwrap_or(0) as K, x[1].as_u64().unwrap_or(0) as K)).collect())
        .unwrap_or_default();
    let mut rep = Report::new();
    let mut ctx = EvalCtx {
        prop: &prop,
        exhaustive: edges.len() <= 6,
        rng: Rng::new(1),
        pairs_cap: 2000,
        focus: vec![],
    };
    if prop == "C08" {
        eval_c08::<F>(&prios, &edges, &mut ctx, &mut rep);
    } else {
        match build::<F>(&prios, &edges) {
            Ok(g) => eval_graph::<F>(&g, &mut ctx, &mut rep),
            Err(e) => {
                println!("graph unobservable: {}", e);
                return true;
            }
        }
    }
    println!("replayed {} on graph connects={:?} prios={:?}: {} discrepancies", prop, edges, prios, rep.total_violations());
    for x in rep.violations.iter().take(6) {
        println!("DISCREPANCY: {}", x.what);
    }
    rep.total_violations() > 0
}
