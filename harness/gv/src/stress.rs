//! C17 engine (b): free-running stress with real threads on the real lock,
//! with seeded yields/spins injected at lock points.  Only op mixes whose
//! cross-thread pairs have no open finding are used, so on the reference tree
//! the layer is silent and anything it reports is new.
//!
//! Families:
//!  * owned-pairs: every thread mutates only node pairs it owns (ordered
//!    pairs for directed, unordered for undirected) while sharing the nodes;
//!    oracles: termination, no panic / poison, conservation per pair
//!    (live edges == connects - successful disconnects, every returned edge
//!    id was created by the owner and returned once), invariant walkers at
//!    quiescence.
//!  * one-writer: one thread runs every mutation (isolate included), the
//!    others run queries, iterations and traversals; same oracles.

use crate::core::*;
use crate::flav::*;
use crate::report::*;
use crate::types::*;
use serde_json::json;
use std::cell::Cell;
use std::sync::atomic::{AtomicBool, AtomicU64, Ordering as AO};
use std::sync::Arc;

pub struct StressObserver {
    pub yields: AtomicU64,
    pub spins: AtomicU64,
    pub events: AtomicU64,
    pub blocked: AtomicU64,
}

thread_local! {
    static TRNG: Cell<u64> = Cell::new(0x9E3779B97F4A7C15);
}

pub fn seed_thread(s: u64) {
    TRNG.with(|c| c.set(s | 1));
}

fn trand() -> u64 {
    TRNG.with(|c| {
        let mut x = c.get();
        x ^= x << 13;
        x ^= x >> 7;
        x ^= x << 17;
        c.set(x);
        x
    })
}

impl gdsl::verif_hook::LockObserver for StressObserver {
    fn before(&self, _lock: usize, _write: bool) {
        self.events.fetch_add(1, AO::Relaxed);
        let r = trand();
        if r % 5 == 0 {
            self.yields.fetch_add(1, AO::Relaxed);
            std::thread::yield_now();
        } else if r % 17 == 0 {
            self.spins.fetch_add(1, AO::Relaxed);
            for _ in 0..(r >> 40) % 400 {
                std::hint::spin_loop();
            }
        }
    }
    fn would_block(&self, _lock: usize, _write: bool) {
        // fall through to the blocking std call: real futex behaviour
        self.blocked.fetch_add(1, AO::Relaxed);
    }
    fn acquired(&self, _lock: usize, _write: bool) {}
    fn released(&self, _lock: usize, _write: bool) {
        if trand() % 11 == 0 {
            std::thread::yield_now();
        }
    }
}

fn thread_state(tid: u64) -> char {
    let s = std::fs::read_to_string(format!("/proc/self/task/{}/stat", tid)).unwrap_or_default();
    s.rsplit(')').next().and_then(|r| r.trim().chars().next()).unwrap_or('?')
}

fn my_tid() -> u64 {
    std::fs::read_to_string("/proc/thread-self/stat")
        .ok()
        .and_then(|s| s.split_whitespace().next().and_then(|x| x.parse().ok()))
        .unwrap_or(0)
}

/// worker threads per iteration
pub const NT: usize = 4;

#[derive(Clone, Copy, Debug, PartialEq, Eq)]
pub enum Family {
    OwnedPairs,
    OneWriter,
    /// three mutating threads, each owning the pairs "around the ring" from its
    /// own node (0: {0,1}; 1: {1,2}; 2: {2,0}): three-node lock cycles
    Ring,
}

struct WorkerOut {
    msgs: Vec<String>,
    /// live edge ids per owned pair index
    live: Vec<Vec<u32>>,
    ops: u64,
}

fn all_pairs(directed: bool) -> Vec<(K, K)> {
    if directed {
        vec![(0, 1), (1, 0), (1, 2), (2, 1), (0, 2), (2, 0), (0, 0), (1, 1), (2, 2)]
    } else {
        vec![(0, 1), (1, 2), (0, 2), (0, 0), (1, 1), (2, 2)]
    }
}

fn ring_pairs(directed: bool, t: usize) -> Vec<(K, K)> {
    let a = t as K;
    let b = ((t + 1) % 3) as K;
    if directed {
        // own the ordered pair from the own node to the next one, and the own self-loop
        vec![(a, b), (a, a)]
    } else {
        vec![(a, b)]
    }
}

fn owned_pairs(directed: bool, t: usize, rot: usize) -> Vec<(K, K)> {
    // three nodes; pairs are dealt round-robin to the two mutating threads
    let all = all_pairs(directed);
    all.iter().enumerate().filter(|(i, _)| (i + rot) % 2 == t).map(|(_, p)| *p).collect()
}

fn reader_ops<F: Flav>(nodes: &[F::Node], r: u64) {
    let n = &nodes[(r % nodes.len() as u64) as usize];
    match (r >> 8) % 6 {
        0 => {
            let _ = (F::out_degree(n), F::in_degree(n), F::is_orphan(n), F::is_root(n), F::is_leaf(n));
        }
        1 => {
            for k in 0..nodes.len() as K {
                let _ = (F::is_connected(n, &k), F::find_out(n, &k).is_some(), F::find_in(n, &k).is_some());
            }
        }
        2 => {
            let _ = F::iter_out(n).len() + F::iter_in(n).len();
        }
        3 => {
            let mut c = 0usize;
            let mut cb = |_e: &F::Edge| -> bool {
                c += 1;
                c < 100_000
            };
            let mut cfg = Cfg::new(if r & 1 == 0 { Algo::Bfs } else { Algo::Dfs }, Mode::Path);
            cfg.meth = Meth::ForEach;
            let _ = F::search(n, &cfg, Some(&mut cb));
        }
        4 => {
            let mut cfg = Cfg::new(Algo::Bfs, Mode::Path);
            cfg.target = Some(((r >> 16) % nodes.len() as u64) as K);
            let _ = F::search(n, &cfg, None);
        }
        _ => {
            let _ = F::search(n, &Cfg::new(Algo::Pre, Mode::Nodes), None);
        }
    }
}

/// One iteration: fresh nodes, three threads, join, oracles.
fn iteration<F: Flav>(fam: Family, seed: u64, ops: usize, progress: &Arc<Vec<AtomicU64>>, tids: &Arc<Vec<AtomicU64>>, finished: &Arc<Vec<AtomicBool>>) -> Vec<String>
where
    F::Node: Send + Sync,
{
    let w = World::<F>::new(3);
    let nodes: Vec<F::Node> = w.nodes.clone();
    let mut outs: Vec<Option<WorkerOut>> = vec![None, None, None, None];
    for f in finished.iter() {
        f.store(false, AO::SeqCst);
    }
    std::thread::scope(|s| {
        let mut hs = vec![];
        for t in 0..NT {
            let nodes = nodes.clone();
            let progress = progress.clone();
            let tids = tids.clone();
            let finished = finished.clone();
            hs.push(s.spawn(move || {
                seed_thread(seed.wrapping_mul(31).wrapping_add(t as u64 * 7919 + 1));
                tids[t].store(my_tid(), AO::SeqCst);
                let mut out = WorkerOut { msgs: vec![], live: vec![], ops: 0 };
                let mutator = match fam {
                    Family::OwnedPairs => t < 2,
                    Family::OneWriter => t == 0,
                    Family::Ring => t < 3,
                };
                let pairs: Vec<(K, K)> = match fam {
                    Family::OwnedPairs => owned_pairs(F::DIRECTED, t % 2, (seed % 2) as usize),
                    Family::OneWriter => all_pairs(F::DIRECTED),
                    Family::Ring => ring_pairs(F::DIRECTED, t % 3),
                };
                out.live = vec![vec![]; pairs.len()];
                let mut next_id = (t as u32 + 1) * 1_000_000;
                let r = catch(|| {
                    for _ in 0..ops {
                        let r = trand();
                        if mutator {
                            let pi = (r % pairs.len() as u64) as usize;
                            let (mut a, mut b) = pairs[pi];
                            if !F::DIRECTED && (r >> 20) & 1 == 1 {
                                std::mem::swap(&mut a, &mut b);
                            }
                            match (r >> 8) % 8 {
                                0 | 1 | 2 => {
                                    next_id += 1;
                                    F::connect(&nodes[a as usize], &nodes[b as usize], Eid { id: next_id, val: 0 });
                                    out.live[pi].push(next_id);
                                }
                                3 => {
                                    next_id += 1;
                                    let had = !out.live[pi].is_empty();
                                    match F::try_connect(&nodes[a as usize], &nodes[b as usize], Eid { id: next_id, val: 0 }) {
                                        Ok(()) => {
                                            if had && fam != Family::OneWriter {
                                                out.msgs.push(format!("try_connect({},{}) succeeded although the owner has {} live edge(s) on the pair", a, b, out.live[pi].len()));
                                            }
                                            out.live[pi].push(next_id);
                                        }
                                        Err(_) => {
                                            if !had && fam != Family::OneWriter {
                                                out.msgs.push(format!("try_connect({},{}) failed although the owner has no live edge on the pair", a, b));
                                            }
                                        }
                                    }
                                }
                                4 | 5 | 6 => match F::disconnect(&nodes[a as usize], &b) {
                                    Ok(e) => match out.live[pi].iter().position(|x| *x == e.id) {
                                        Some(p) => {
                                            out.live[pi].remove(p);
                                        }
                                        None => out.msgs.push(format!("disconnect({},{}) returned edge e{} which is not a live edge of that pair", a, b, e.id)),
                                    },
                                    Err(_) => {
                                        if !out.live[pi].is_empty() {
                                            out.msgs.push(format!("disconnect({},{}) failed although {} edge(s) of the pair are live", a, b, out.live[pi].len()));
                                        }
                                    }
                                },
                                _ => {
                                    if fam == Family::OneWriter {
                                        F::isolate(&nodes[a as usize]);
                                        for (qi, q) in pairs.iter().enumerate() {
                                            if q.0 == a || q.1 == a {
                                                out.live[qi].clear();
                                            }
                                        }
                                    } else {
                                        reader_ops::<F>(&nodes, r);
                                    }
                                }
                            }
                        } else {
                            reader_ops::<F>(&nodes, r);
                        }
                        out.ops += 1;
                        progress[t].fetch_add(1, AO::Relaxed);
                    }
                });
                if let Err(p) = r {
                    out.msgs.push(format!("thread {} panicked: {}", t, p));
                }
                finished[t].store(true, AO::SeqCst);
                out
            }));
        }
        for (t, h) in hs.into_iter().enumerate() {
            outs[t] = h.join().ok();
        }
    });
    let mut msgs = vec![];
    for (t, o) in outs.iter().enumerate() {
        match o {
            None => msgs.push(format!("thread {} died", t)),
            Some(o) => msgs.extend(o.msgs.iter().cloned()),
        }
    }
    // quiescence: walkers + conservation
    match observe::<F>(&w) {
        Err(p) => msgs.push(format!("state unobservable at quiescence (poisoned lock?): {}", p)),
        Ok(o) => {
            for m in check_invariant::<F>(&o) {
                msgs.push(format!("at quiescence: {}", m));
            }
            // live edge ids per node pair as the implementation reports them
            let mut want: Vec<(K, K, u32)> = vec![];
            for (t, out) in outs.iter().enumerate() {
                if let Some(out) = out {
                    let mutator = match fam {
                        Family::OwnedPairs => t < 2,
                        Family::OneWriter => t == 0,
                        Family::Ring => t < 3,
                    };
                    if !mutator {
                        continue;
                    }
                    let pairs: Vec<(K, K)> = match fam {
                        Family::OwnedPairs => owned_pairs(F::DIRECTED, t % 2, (seed % 2) as usize),
                        Family::OneWriter => all_pairs(F::DIRECTED),
                        Family::Ring => ring_pairs(F::DIRECTED, t % 3),
                    };
                    for (pi, p) in pairs.iter().enumerate() {
                        for id in &out.live[pi] {
                            want.push((p.0, p.1, *id));
                        }
                    }
                }
            }
            let mut got_ids: Vec<u32> = vec![];
            for u in 0..3 {
                for (_, e) in &o.n[u].out {
                    got_ids.push(e.id);
                }
            }
            got_ids.sort();
            let mut want_ids: Vec<u32> = want.iter().flat_map(|(a, b, id)| if F::DIRECTED { vec![*id] } else if a == b { vec![*id, *id] } else { vec![*id, *id] }).collect();
            want_ids.sort();
            if got_ids != want_ids {
                msgs.push(format!(
                    "conservation broken: {} live edge entries reported, the threads' connects minus successful disconnects amount to {}",
                    got_ids.len(),
                    want_ids.len()
                ));
            }
        }
    }
    msgs
}

pub fn run<F: Flav>(rep: &mut Report, iterations: u64, ops: usize, seed: u64, out_path: &str)
where
    F::Node: Send + Sync,
{
    let obs = Arc::new(StressObserver {
        yields: AtomicU64::new(0),
        spins: AtomicU64::new(0),
        events: AtomicU64::new(0),
        blocked: AtomicU64::new(0),
    });
    gdsl::verif_hook::install(obs.clone());
    let progress: Arc<Vec<AtomicU64>> = Arc::new((0..NT).map(|_| AtomicU64::new(0)).collect());
    let tids: Arc<Vec<AtomicU64>> = Arc::new((0..NT).map(|_| AtomicU64::new(0)).collect());
    let finished: Arc<Vec<AtomicBool>> = Arc::new((0..NT).map(|_| AtomicBool::new(true)).collect());
    // thread-state sampler: deadlock = no progress between samples and every unfinished worker asleep
    let cur_desc = Arc::new(std::sync::Mutex::new(String::new()));
    let samples = Arc::new(AtomicU64::new(0));
    {
        let (progress, tids, finished, cur_desc, samples) = (progress.clone(), tids.clone(), finished.clone(), cur_desc.clone(), samples.clone());
        let out_path = out_path.to_string();
        let flav = F::NAME;
        std::thread::spawn(move || {
            let mut last: Vec<u64> = vec![0; NT];
            let mut still = 0;
            loop {
                std::thread::sleep(std::time::Duration::from_millis(400));
                samples.fetch_add(1, AO::Relaxed);
                let now: Vec<u64> = progress.iter().map(|p| p.load(AO::Relaxed)).collect();
                let unfinished: Vec<usize> = (0..NT).filter(|t| !finished[*t].load(AO::SeqCst)).collect();
                let asleep = !unfinished.is_empty() && unfinished.iter().all(|t| thread_state(tids[*t].load(AO::SeqCst)) == 'S');
                if now == last && asleep {
                    still += 1;
                } else {
                    still = 0;
                }
                last = now;
                if still >= 5 {
                    // nobody is left to wake them: report and leave (threads cannot be killed)
                    let desc = cur_desc.lock().map(|d| d.clone()).unwrap_or_default();
                    let mut r = Report::new();
                    r.count("evaluations");
                    r.violation(
                        "C17",
                        format!("{}|stress|deadlock", flav),
                        format!("[{}] free-running stress deadlocked: threads {:?} made no progress over 5 samples and all sleep in the kernel; {}", flav, unfinished, desc),
                        json!({"kind":"stress","flavour":flav,"desc":desc}),
                    );
                    r.write(&out_path);
                    std::process::exit(0);
                }
            }
        });
    }
    for it in 0..iterations {
        for fam in [Family::OwnedPairs, Family::OneWriter, Family::Ring] {
            let s = seed.wrapping_mul(1_000_003).wrapping_add(it * 3 + fam as u64);
            if let Ok(mut d) = cur_desc.lock() {
                *d = format!("family {:?} seed {} ops {}", fam, s, ops);
            }
            watchdog::tick(|| format!("{} stress {:?} seed {}", F::NAME, fam, s));
            let msgs = iteration::<F>(fam, s, ops, &progress, &tids, &finished);
            rep.count("evaluations");
            rep.count("stress_iterations");
            rep.count(&format!("{}.stress.{:?}", F::NAME, fam));
            rep.distinct(fnv_str(&format!("{}|{:?}|{}", F::NAME, fam, s)));
            if it == 0 {
                rep.sample(json!({"flavour":F::NAME,"stress_family":format!("{:?}", fam),"threads":NT,"ops_per_thread":ops,"seed":s}));
            }
            if !msgs.is_empty() {
                let cls: String = msgs[0].chars().filter(|c| !c.is_ascii_digit()).take(50).collect();
                rep.violation(
                    "C17",
                    format!("{}|stress {:?}|{}", F::NAME, fam, cls),
                    format!("[{}] stress family {:?} seed {} ({} ops/thread): {}", F::NAME, fam, s, ops, msgs.iter().take(4).cloned().collect::<Vec<_>>().join("; ")),
                    json!({"kind":"stress","flavour":F::NAME,"family":format!("{:?}", fam),"seed":s,"ops":ops}),
                );
            }
        }
    }
    rep.add("stress.lock_events", obs.events.load(AO::Relaxed));
    rep.add("stress.injected_yields", obs.yields.load(AO::Relaxed));
    rep.add("stress.injected_spins", obs.spins.load(AO::Relaxed));
    rep.add("stress.acquisitions_that_had_to_block", obs.blocked.load(AO::Relaxed));
    rep.add("stress.thread_state_samples", samples.load(AO::Relaxed));
    rep.add("stress.operations", progress.iter().map(|p| p.load(AO::Relaxed)).sum());
}
