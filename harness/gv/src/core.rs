//! Shared monitor machinery: panic capture, the single-threaded lock
//! observer, worlds of live nodes, the observation function `observe`, the
//! C01 / C02 walkers and the C03 step relation.

use crate::flav::*;
use crate::types::*;
use std::cell::RefCell;
use std::collections::BTreeMap;
use std::panic::{catch_unwind, AssertUnwindSafe};
use std::sync::atomic::{AtomicU64, Ordering as AO};
use std::sync::Arc;

// ---------------------------------------------------------------- panics

thread_local! {
    static LAST_PANIC: RefCell<Option<String>> = RefCell::new(None);
}

/// Installs a quiet panic hook that records message + location per thread.
pub fn install_panic_hook() {
    std::panic::set_hook(Box::new(|info| {
        let msg = if let Some(s) = info.payload().downcast_ref::<&str>() {
            s.to_string()
        } else if let Some(s) = info.payload().downcast_ref::<String>() {
            s.clone()
        } else {
            "<non-string panic>".to_string()
        };
        let loc = info
            .location()
            .map(|l| format!("{}:{}", l.file(), l.line()))
            .unwrap_or_default();
        let full = format!("{} @ {}", msg, loc);
        if msg.starts_with("harness:") {
            eprintln!("HARNESS PANIC: {}", full);
        }
        LAST_PANIC.with(|p| *p.borrow_mut() = Some(full));
    }));
}

/// Runs `f`, turning a panic into `Err(message @ location)`.
pub fn catch<R>(f: impl FnOnce() -> R) -> Result<R, String> {
    LAST_PANIC.with(|p| *p.borrow_mut() = None);
    match catch_unwind(AssertUnwindSafe(f)) {
        Ok(r) => Ok(r),
        Err(_) => Err(LAST_PANIC
            .with(|p| p.borrow_mut().take())
            .unwrap_or_else(|| "<panic>".into())),
    }
}

/// Panic message without the line number part (stable key material).
pub fn panic_class(msg: &str) -> String {
    let m = msg.split(" @ ").next().unwrap_or(msg);
    let loc = msg.split(" @ ").nth(1).unwrap_or("");
    let file = loc.rsplit('/').next().unwrap_or("").split(':').next().unwrap_or("");
    let m: String = m.chars().take(60).collect();
    format!("{}@{}", m, file)
}

// ------------------------------------------------ single-threaded lock observer

/// Lock observer for single-threaded monitors: with one thread, a
/// non-blocking acquisition can only fail because the *same* thread already
/// holds a conflicting guard, i.e. the real lock would self-deadlock.  That is
/// reported as a panic (caught by the harness) instead of a hang.
pub struct StObserver {
    pub before: AtomicU64,
    pub acquired: AtomicU64,
    pub released: AtomicU64,
    pub selfdead: AtomicU64,
}

impl gdsl::verif_hook::LockObserver for StObserver {
    fn before(&self, _lock: usize, _write: bool) {
        self.before.fetch_add(1, AO::Relaxed);
    }
    fn would_block(&self, _lock: usize, write: bool) {
        self.selfdead.fetch_add(1, AO::Relaxed);
        panic!(
            "SELF-DEADLOCK: {} acquisition of a node lock while the same thread holds a conflicting guard",
            if write { "write" } else { "read" }
        );
    }
    fn acquired(&self, _lock: usize, _write: bool) {
        self.acquired.fetch_add(1, AO::Relaxed);
    }
    fn released(&self, _lock: usize, _write: bool) {
        self.released.fetch_add(1, AO::Relaxed);
    }
}

pub fn install_st_observer() -> Arc<StObserver> {
    let o = Arc::new(StObserver {
        before: AtomicU64::new(0),
        acquired: AtomicU64::new(0),
        released: AtomicU64::new(0),
        selfdead: AtomicU64::new(0),
    });
    gdsl::verif_hook::install(o.clone());
    o
}

// ---------------------------------------------------------------- world

pub struct World<F: Flav> {
    pub reg: Arc<Registry>,
    pub nodes: Vec<F::Node>,
    pub insts: Vec<u64>,
    pub next_eid: u32,
}

impl<F: Flav> World<F> {
    pub fn new(n: usize) -> Self {
        Self::with_prios(&vec![0; n])
    }
    pub fn with_prios(prios: &[i32]) -> Self {
        let reg = Registry::new();
        let mut nodes = vec![];
        let mut insts = vec![];
        for (k, p) in prios.iter().enumerate() {
            let pl = reg.mk(*p);
            insts.push(pl.inst);
            nodes.push(F::node(k as K, pl));
        }
        World {
            reg,
            nodes,
            insts,
            next_eid: 1,
        }
    }
    pub fn n(&self) -> usize {
        self.nodes.len()
    }
    pub fn fresh(&mut self) -> Eid {
        let id = self.next_eid;
        self.next_eid += 1;
        Eid {
            id,
            val: ((id as i32) * 7) % 5,
        }
    }
}

// ---------------------------------------------------------------- observation

pub type EL = Vec<(K, Eid)>;

#[derive(Clone, PartialEq, Eq, Debug, Default)]
pub struct NodeObs {
    /// directed: iter_out ; undirected: iter
    pub out: EL,
    /// directed: iter_in ; undirected: empty
    pub inn: EL,
    /// `for e in &node`
    pub into: EL,
    pub out_degree: usize,
    pub in_degree: usize,
    pub is_root: Option<bool>,
    pub is_leaf: Option<bool>,
    pub is_orphan: bool,
    pub find_out: Vec<bool>,
    pub find_in: Vec<bool>,
    pub is_conn: Vec<bool>,
}

#[derive(Clone, PartialEq, Eq, Debug, Default)]
pub struct Obs {
    pub n: Vec<NodeObs>,
    /// identity / endpoint errors found while observing
    pub errs: Vec<String>,
}

impl Obs {
    pub fn live_edges(&self, directed: bool) -> usize {
        let s: usize = self.n.iter().map(|x| x.out.len()).sum();
        if directed {
            s
        } else {
            (s + 1) / 2
        }
    }
    /// Lists only (what the C03 relation and the canonical state use).
    pub fn lists(&self) -> Vec<(EL, EL)> {
        self.n.iter().map(|x| (x.out.clone(), x.inn.clone())).collect()
    }
    /// Canonical text of the adjacency with edge ids renamed by first
    /// appearance; two histories reaching the same abstract state agree.
    pub fn canon(&self) -> String {
        let mut ren: BTreeMap<u32, u32> = BTreeMap::new();
        let mut s = String::new();
        for (i, x) in self.n.iter().enumerate() {
            s.push_str(&format!("{}:", i));
            for l in [&x.out, &x.inn] {
                s.push('[');
                for (k, e) in l.iter() {
                    let next = ren.len() as u32;
                    let r = *ren.entry(e.id).or_insert(next);
                    s.push_str(&format!("{}.{},", k, r));
                }
                s.push(']');
            }
        }
        s
    }
    pub fn brief(&self) -> String {
        let mut s = String::new();
        for (i, x) in self.n.iter().enumerate() {
            s.push_str(&format!("{}:out{:?}", i, x.out.iter().map(|(k, e)| (*k, e.id)).collect::<Vec<_>>()));
            if !x.inn.is_empty() {
                s.push_str(&format!("in{:?}", x.inn.iter().map(|(k, e)| (*k, e.id)).collect::<Vec<_>>()));
            }
            s.push(' ');
        }
        s
    }
}

fn edge_list<F: Flav>(
    w: &World<F>,
    owner: K,
    owner_is_src: bool,
    edges: &[F::Edge],
    what: &str,
    errs: &mut Vec<String>,
) -> EL {
    let mut v = vec![];
    for e in edges {
        let (s, d) = (F::e_src(e), F::e_dst(e));
        let (sk, dk) = (F::key(s), F::key(d));
        let ev = *F::e_val(e);
        let (ak, bk, av) = F::e_acc(e);
        if (ak, bk, av) != (sk, dk, ev) {
            errs.push(format!("{}({}): accessors disagree with fields", what, owner));
        }
        let (own, peer) = if owner_is_src { (s, d) } else { (d, s) };
        if F::key(own) != owner {
            errs.push(format!(
                "{}({}) yielded an edge whose own endpoint is {}",
                what,
                owner,
                F::key(own)
            ));
        }
        for h in [own, peer] {
            let k = F::key(h) as usize;
            if k >= w.insts.len() || F::val(h).inst != w.insts[k] {
                errs.push(format!("{}({}) yielded a foreign node for key {}", what, owner, k));
            }
        }
        v.push((F::key(peer), ev));
    }
    v
}

/// The monitors' only view of the implementation: everything a node reports
/// about itself through the public API.  `extra_keys` are looked up as well
/// (keys outside the world).
pub fn observe<F: Flav>(w: &World<F>) -> Result<Obs, String> {
    catch(|| {
        let mut obs = Obs::default();
        let n = w.n();
        for u in 0..n {
            let node = &w.nodes[u];
            let uk = u as K;
            let mut o = NodeObs::default();
            let out = F::iter_out(node);
            o.out = edge_list::<F>(w, uk, true, &out, "iter_out/iter", &mut obs.errs);
            if F::DIRECTED {
                let inn = F::iter_in(node);
                o.inn = edge_list::<F>(w, uk, false, &inn, "iter_in", &mut obs.errs);
            }
            let into = F::iter_into(node);
            o.into = edge_list::<F>(w, uk, true, &into, "into_iter", &mut obs.errs);
            o.out_degree = F::out_degree(node);
            o.in_degree = F::in_degree(node);
            o.is_root = F::is_root(node);
            o.is_leaf = F::is_leaf(node);
            o.is_orphan = F::is_orphan(node);
            for k in 0..(n as K + 1) {
                // key n is outside the world
                let fo = F::find_out(node, &k);
                if let Some(h) = &fo {
                    if F::key(h) != k
                        || (k as usize) >= n
                        || F::val(h).inst != w.insts[k as usize]
                    {
                        obs.errs.push(format!("find_out({},{}) returned a wrong node", u, k));
                    }
                }
                o.find_out.push(fo.is_some());
                let fi = F::find_in(node, &k);
                if let Some(h) = &fi {
                    if F::key(h) != k
                        || (k as usize) >= n
                        || F::val(h).inst != w.insts[k as usize]
                    {
                        obs.errs.push(format!("find_in({},{}) returned a wrong node", u, k));
                    }
                }
                o.find_in.push(fi.is_some());
                o.is_conn.push(F::is_connected(node, &k));
            }
            if F::key(node) != uk || F::val(node).inst != w.insts[u] || F::deref_val(node).inst != w.insts[u] {
                obs.errs.push(format!("handle {} changed identity", u));
            }
            obs.n.push(o);
        }
        obs
    })
}

// ---------------------------------------------------------------- walkers

fn sub(l: &EL, k: K) -> Vec<Eid> {
    l.iter().filter(|(p, _)| *p == k).map(|(_, e)| *e).collect()
}

/// Views of one node that must agree with its own lists (both C01 and C02).
fn derived_views(o: &Obs, directed: bool, v: &mut Vec<String>) {
    let n = o.n.len();
    for (u, x) in o.n.iter().enumerate() {
        if x.into != x.out {
            v.push(format!("node {}: `for e in &node` differs from iter_out/iter", u));
        }
        if x.out_degree != x.out.len() {
            v.push(format!(
                "node {}: {} = {} but {} edges are iterated",
                u,
                if directed { "out_degree" } else { "degree" },
                x.out_degree,
                x.out.len()
            ));
        }
        if directed && x.in_degree != x.inn.len() {
            v.push(format!("node {}: in_degree = {} but iter_in yields {}", u, x.in_degree, x.inn.len()));
        }
        if let Some(r) = x.is_root {
            if r != x.inn.is_empty() {
                v.push(format!("node {}: is_root = {} with {} incoming", u, r, x.inn.len()));
            }
        }
        if let Some(l) = x.is_leaf {
            if l != x.out.is_empty() {
                v.push(format!("node {}: is_leaf = {} with {} outgoing", u, l, x.out.len()));
            }
        }
        if x.is_orphan != (x.out.is_empty() && x.inn.is_empty()) {
            v.push(format!("node {}: is_orphan = {} with {}+{} edges", u, x.is_orphan, x.out.len(), x.inn.len()));
        }
        for k in 0..=n {
            let has_out = x.out.iter().any(|(p, _)| *p as usize == k);
            if x.find_out[k] != has_out {
                v.push(format!(
                    "node {}: {}({}) is_some = {} but lists say {}",
                    u,
                    if directed { "find_outbound" } else { "find_adjacent" },
                    k,
                    x.find_out[k],
                    has_out
                ));
            }
            if x.is_conn[k] != has_out {
                v.push(format!("node {}: is_connected({}) = {} but lists say {}", u, k, x.is_conn[k], has_out));
            }
            if directed {
                let has_in = x.inn.iter().any(|(p, _)| *p as usize == k);
                if x.find_in[k] != has_in {
                    v.push(format!("node {}: find_inbound({}) is_some = {} but lists say {}", u, k, x.find_in[k], has_in));
                }
            }
        }
    }
    for e in &o.errs {
        v.push(e.clone());
    }
}

/// C01: the mirror invariant over one observation.
pub fn check_mirror(o: &Obs) -> Vec<String> {
    let mut v = vec![];
    let n = o.n.len();
    for u in 0..n {
        for w in 0..n {
            let a = sub(&o.n[u].out, w as K);
            let b = sub(&o.n[w].inn, u as K);
            if a != b {
                v.push(format!(
                    "edges {}->{}: source lists {:?}, target lists {:?}",
                    u,
                    w,
                    a.iter().map(|e| e.id).collect::<Vec<_>>(),
                    b.iter().map(|e| e.id).collect::<Vec<_>>()
                ));
            }
        }
        // peers outside the world
        for (p, _) in o.n[u].out.iter().chain(o.n[u].inn.iter()) {
            if *p as usize >= n {
                v.push(format!("node {} lists unknown peer {}", u, p));
            }
        }
    }
    derived_views(o, true, &mut v);
    v
}

/// C02: symmetry of undirected adjacency over one observation.
pub fn check_symmetry(o: &Obs) -> Vec<String> {
    let mut v = vec![];
    let n = o.n.len();
    for u in 0..n {
        for w in 0..n {
            let mut a = sub(&o.n[u].out, w as K);
            let mut b = sub(&o.n[w].out, u as K);
            a.sort();
            b.sort();
            if u != w {
                if a != b {
                    v.push(format!(
                        "{} lists edges to {}: {:?}; {} lists edges to {}: {:?}",
                        u,
                        w,
                        a.iter().map(|e| e.id).collect::<Vec<_>>(),
                        w,
                        u,
                        b.iter().map(|e| e.id).collect::<Vec<_>>()
                    ));
                }
                if o.n[u].is_conn[w] != o.n[w].is_conn[u] {
                    v.push(format!(
                        "is_connected asymmetric between {} and {}: {} vs {}",
                        u, w, o.n[u].is_conn[w], o.n[w].is_conn[u]
                    ));
                }
                if o.n[u].find_out[w] != o.n[w].find_out[u] {
                    v.push(format!("find_adjacent asymmetric between {} and {}", u, w));
                }
            } else {
                // a self-loop appears exactly twice in iter(u)
                let mut i = 0;
                while i < a.len() {
                    let mut j = i;
                    while j < a.len() && a[j] == a[i] {
                        j += 1;
                    }
                    if j - i != 2 {
                        v.push(format!("self-loop e{} of node {} listed {} times (expected 2)", a[i].id, u, j - i));
                    }
                    i = j;
                }
            }
        }
        for (p, _) in o.n[u].out.iter() {
            if *p as usize >= n {
                v.push(format!("node {} lists unknown peer {}", u, p));
            }
        }
    }
    derived_views(o, false, &mut v);
    v
}

pub fn check_invariant<F: Flav>(o: &Obs) -> Vec<String> {
    if F::DIRECTED {
        check_mirror(o)
    } else {
        check_symmetry(o)
    }
}

// ---------------------------------------------------------------- operations

#[derive(Clone, Copy, Debug, PartialEq, Eq, Hash, PartialOrd, Ord)]
pub enum Op {
    Connect(K, K),
    TryConnect(K, K),
    /// caller, key
    Disconnect(K, K),
    Isolate(K),
}

impl Op {
    pub fn name(&self) -> &'static str {
        match self {
            Op::Connect(..) => "connect",
            Op::TryConnect(..) => "try_connect",
            Op::Disconnect(..) => "disconnect",
            Op::Isolate(..) => "isolate",
        }
    }
    pub fn short(&self) -> String {
        match self {
            Op::Connect(a, b) => format!("c{}>{}", a, b),
            Op::TryConnect(a, b) => format!("t{}>{}", a, b),
            Op::Disconnect(a, b) => format!("d{}-{}", a, b),
            Op::Isolate(a) => format!("i{}", a),
        }
    }
    pub fn parse(s: &str) -> Option<Op> {
        let c = s.chars().next()?;
        let rest = &s[1..];
        let two = |sep: char| -> Option<(K, K)> {
            let mut it = rest.split(sep);
            Some((it.next()?.parse().ok()?, it.next()?.parse().ok()?))
        };
        match c {
            'c' => two('>').map(|(a, b)| Op::Connect(a, b)),
            't' => two('>').map(|(a, b)| Op::TryConnect(a, b)),
            'd' => two('-').map(|(a, b)| Op::Disconnect(a, b)),
            'i' => rest.parse().ok().map(Op::Isolate),
            _ => None,
        }
    }
}

pub fn hist_str(h: &[Op]) -> String {
    h.iter().map(|o| o.short()).collect::<Vec<_>>().join(" ")
}

pub fn parse_hist(s: &str) -> Vec<Op> {
    s.split_whitespace().filter_map(Op::parse).collect()
}

#[derive(Clone, Debug, PartialEq, Eq)]
pub enum Res {
    Unit,
    Ok,
    OkE(Eid),
    Err(ErrK),
    Panic(String),
}

/// Where a handle used as operand comes from (C03: "whichever handle").
pub const PROV_KINDS: u32 = 8;

/// A handle used as operand: either obtained afresh for this one call, or the
/// long-lived original handle itself (kind 7), so that any state a handle
/// object carries from its earlier calls is in play as well.
pub enum HRef<'a, F: Flav> {
    Own(F::Node),
    Ref(&'a F::Node),
}

impl<'a, F: Flav> HRef<'a, F> {
    pub fn get(&self) -> &F::Node {
        match self {
            HRef::Own(n) => n,
            HRef::Ref(n) => n,
        }
    }
}

/// Obtain a handle for key `k` by provenance kind; falls back to a clone
/// when the requested provenance is not available in the current graph.
/// Returns (handle, kind actually used).
pub fn handle<F: Flav>(w: &World<F>, k: K, kind: u32) -> (HRef<'_, F>, u32) {
    if kind % PROV_KINDS == 7 {
        // the original handle object itself, as used by every earlier kind-7 call
        return (HRef::Ref(&w.nodes[k as usize]), 7);
    }
    let (h, used) = handle_fresh::<F>(w, k, kind);
    (HRef::Own(h), used)
}

fn handle_fresh<F: Flav>(w: &World<F>, k: K, kind: u32) -> (F::Node, u32) {
    let me = &w.nodes[k as usize];
    match kind % PROV_KINDS {
        1 => {
            // clone of a clone
            let c = me.clone();
            (c.clone(), 1)
        }
        2 => {
            // neighbour lookup from a node that lists k
            for x in &w.nodes {
                if let Some(h) = F::find_out(x, &k) {
                    return (h, 2);
                }
                if let Some(h) = F::find_in(x, &k) {
                    return (h, 2);
                }
            }
            (me.clone(), 0)
        }
        3 => {
            // endpoint of a yielded edge
            for x in &w.nodes {
                for e in F::iter_out(x) {
                    if F::key(F::e_dst(&e)) == k {
                        return (F::e_dst(&e).clone(), 3);
                    }
                    if F::key(F::e_src(&e)) == k {
                        return (F::e_src(&e).clone(), 3);
                    }
                }
            }
            (me.clone(), 0)
        }
        4 => {
            // container lookup
            let mut g = F::g_new();
            for x in &w.nodes {
                F::g_insert(&mut g, x.clone());
            }
            if kind & 8 == 0 {
                (F::g_get(&g, &k).expect("harness: inserted node missing"), 4)
            } else {
                (F::g_index(&g, k), 4)
            }
        }
        5 => {
            // search result
            for x in &w.nodes {
                if F::key(x) == k {
                    continue;
                }
                let mut cfg = Cfg::new(Algo::Bfs, Mode::Search);
                cfg.target = Some(k);
                if let Out::Node(Some(h)) = F::search(x, &cfg, None) {
                    return (h, 5);
                }
            }
            (me.clone(), 0)
        }
        6 => {
            // node of a path
            for x in &w.nodes {
                if F::key(x) == k {
                    continue;
                }
                let mut cfg = Cfg::new(Algo::Dfs, Mode::Path);
                cfg.target = Some(k);
                if let Out::Path(Some(p)) = F::search(x, &cfg, None) {
                    if let Some(h) = p.to_vec_nodes().into_iter().find(|h| F::key(h) == k) {
                        return (h, 6);
                    }
                }
            }
            (me.clone(), 0)
        }
        _ => (me.clone(), 0),
    }
}

/// Executes one operation with handles of the given provenance kinds.
pub fn exec<F: Flav>(w: &mut World<F>, op: Op, prov: (u32, u32)) -> (Res, Option<Eid>, (u32, u32)) {
    watchdog::beat();
    let mut used = (0, 0);
    let mut eid = None;
    let r = match op {
        Op::Connect(a, b) | Op::TryConnect(a, b) => {
            let e = w.fresh();
            eid = Some(e);
            let wr: &World<F> = w;
            catch(|| {
                let (ha, ka) = handle::<F>(wr, a, prov.0);
                let (hb, kb) = handle::<F>(wr, b, prov.1);
                let r = if let Op::Connect(..) = op {
                    F::connect(ha.get(), hb.get(), e);
                    Res::Unit
                } else {
                    match F::try_connect(ha.get(), hb.get(), e) {
                        Ok(()) => Res::Ok,
                        Err(k) => Res::Err(k),
                    }
                };
                (r, (ka, kb))
            })
        }
        Op::Disconnect(a, k) => {
            let wr: &World<F> = w;
            catch(|| {
                let (ha, ka) = handle::<F>(wr, a, prov.0);
                let r = match F::disconnect(ha.get(), &k) {
                    Ok(e) => Res::OkE(e),
                    Err(k) => Res::Err(k),
                };
                (r, (ka, 0))
            })
        }
        Op::Isolate(a) => {
            let wr: &World<F> = w;
            catch(|| {
                let (ha, ka) = handle::<F>(wr, a, prov.0);
                F::isolate(ha.get());
                (Res::Unit, (ka, 0))
            })
        }
    };
    match r {
        Ok((res, u)) => {
            used = u;
            (res, eid, used)
        }
        Err(p) => (Res::Panic(p), eid, used),
    }
}

// ---------------------------------------------------------------- C03 step relation

fn remove_one(l: &EL, k: K, e: Eid) -> Option<EL> {
    let pos = l.iter().position(|x| *x == (k, e))?;
    let mut r = l.clone();
    r.remove(pos);
    Some(r)
}

/// `post` = `pre` with `(k,e)` inserted somewhere, relative order of the
/// others unchanged.
fn is_insert_of(pre: &EL, post: &EL, k: K, e: Eid) -> bool {
    match remove_one(post, k, e) {
        Some(r) => &r == pre,
        None => false,
    }
}

fn without_peer(l: &EL, k: K) -> EL {
    l.iter().filter(|(p, _)| *p != k).cloned().collect()
}

/// The multigraph contract of one step (C03).  Returns the list of
/// discrepancies; empty = the step is inside the relation.
pub fn check_step<F: Flav>(pre: &Obs, op: Op, res: &Res, eid: Option<Eid>, post: &Obs) -> Vec<String> {
    let mut v = vec![];
    let n = pre.n.len();
    let prel = pre.lists();
    let postl = post.lists();
    let unchanged_except = |v: &mut Vec<String>, except: &[usize]| {
        for i in 0..n {
            if !except.contains(&i) && prel[i] != postl[i] {
                v.push(format!("{}: lists of uninvolved node {} changed", op.short(), i));
            }
        }
    };
    if let Res::Panic(p) = res {
        v.push(format!("{} panicked: {}", op.short(), p));
        return v;
    }
    match op {
        Op::Connect(a, b) | Op::TryConnect(a, b) => {
            let e = eid.unwrap();
            let (a_, b_) = (a as usize, b as usize);
            let is_try = matches!(op, Op::TryConnect(..));
            let already = pre.n[a_].out.iter().any(|(p, _)| *p == b);
            let expect_connect = if is_try {
                if already {
                    if *res != Res::Err(ErrK::Exists) {
                        v.push(format!("{}: edge exists but result is {:?}", op.short(), res));
                    }
                    false
                } else {
                    if *res != Res::Ok {
                        v.push(format!("{}: no edge yet but result is {:?}", op.short(), res));
                    }
                    true
                }
            } else {
                true
            };
            if !expect_connect {
                if prel != postl {
                    v.push(format!("{}: failed call changed the graph", op.short()));
                }
                return v;
            }
            if F::DIRECTED {
                let mut want_out = prel[a_].0.clone();
                want_out.push((b, e));
                if postl[a_].0 != want_out {
                    v.push(format!("{}: out({}) is not pre ++ [new edge]", op.short(), a));
                }
                let mut want_in = prel[b_].1.clone();
                want_in.push((a, e));
                if postl[b_].1 != want_in {
                    v.push(format!("{}: in({}) is not pre ++ [new edge]", op.short(), b));
                }
                if a_ != b_ {
                    if postl[a_].1 != prel[a_].1 {
                        v.push(format!("{}: in({}) changed", op.short(), a));
                    }
                    if postl[b_].0 != prel[b_].0 {
                        v.push(format!("{}: out({}) changed", op.short(), b));
                    }
                }
            } else if a_ != b_ {
                if !is_insert_of(&prel[a_].0, &postl[a_].0, b, e) {
                    v.push(format!("{}: iter({}) is not pre plus the one new edge", op.short(), a));
                }
                if !is_insert_of(&prel[b_].0, &postl[b_].0, a, e) {
                    v.push(format!("{}: iter({}) is not pre plus the one new edge", op.short(), b));
                }
            } else {
                // self-loop: two entries
                let ok = match remove_one(&postl[a_].0, a, e) {
                    Some(r1) => is_insert_of(&prel[a_].0, &r1, a, e),
                    None => false,
                };
                if !ok {
                    v.push(format!("{}: iter({}) is not pre plus two entries of the new self-loop", op.short(), a));
                }
            }
            unchanged_except(&mut v, &[a_, b_]);
        }
        Op::Disconnect(a, k) => {
            let a_ = a as usize;
            let exists = pre.n[a_].out.iter().any(|(p, _)| *p == k);
            if !exists {
                if *res != Res::Err(ErrK::NotFound) {
                    v.push(format!("{}: no edge but result is {:?}", op.short(), res));
                }
                if prel != postl {
                    v.push(format!("{}: failed call changed the graph", op.short()));
                }
                return v;
            }
            let e = match res {
                Res::OkE(e) => *e,
                _ => {
                    v.push(format!("{}: edge exists but result is {:?}", op.short(), res));
                    if prel != postl {
                        v.push(format!("{}: and the graph changed", op.short()));
                    }
                    return v;
                }
            };
            if !pre.n[a_].out.contains(&(k, e)) {
                v.push(format!("{}: returned value e{} is not an edge {}->{} of the pre-state", op.short(), e.id, a, k));
                return v;
            }
            let k_ = k as usize;
            if F::DIRECTED {
                if Some(&postl[a_].0) != remove_one(&prel[a_].0, k, e).as_ref() {
                    v.push(format!("{}: out({}) is not pre minus the returned edge", op.short(), a));
                }
                if k_ < n {
                    if Some(&postl[k_].1) != remove_one(&prel[k_].1, a, e).as_ref() {
                        v.push(format!("{}: in({}) is not pre minus the returned edge", op.short(), k));
                    }
                    if a_ != k_ {
                        if postl[a_].1 != prel[a_].1 {
                            v.push(format!("{}: in({}) changed", op.short(), a));
                        }
                        if postl[k_].0 != prel[k_].0 {
                            v.push(format!("{}: out({}) changed", op.short(), k));
                        }
                    }
                }
            } else if a_ != k_ {
                if Some(&postl[a_].0) != remove_one(&prel[a_].0, k, e).as_ref() {
                    v.push(format!("{}: iter({}) is not pre minus the returned edge", op.short(), a));
                }
                if k_ < n && Some(&postl[k_].0) != remove_one(&prel[k_].0, a, e).as_ref() {
                    v.push(format!("{}: iter({}) is not pre minus the returned edge", op.short(), k));
                }
            } else {
                let want = remove_one(&prel[a_].0, a, e).and_then(|r| remove_one(&r, a, e));
                if Some(&postl[a_].0) != want.as_ref() {
                    v.push(format!("{}: iter({}) is not pre minus both entries of the returned self-loop", op.short(), a));
                }
            }
            unchanged_except(&mut v, &[a_, k_]);
        }
        Op::Isolate(a) => {
            let a_ = a as usize;
            if !postl[a_].0.is_empty() || !postl[a_].1.is_empty() {
                v.push(format!("{}: node still lists edges", op.short()));
            }
            for i in 0..n {
                if i == a_ {
                    continue;
                }
                if postl[i].0 != without_peer(&prel[i].0, a) || postl[i].1 != without_peer(&prel[i].1, a) {
                    v.push(format!("{}: lists of node {} are not pre minus the edges incident to {}", op.short(), i, a));
                }
            }
        }
    }
    v
}

// ---------------------------------------------------------------- hang watchdog

/// Non-termination inside one library call is decided on CPU time, not wall
/// time: the monitors call `tick` before every case; if the tick counter does
/// not move while the process burns `CPU_LIMIT_S` seconds of CPU, the current
/// case is reported as a hang (`HANG property=.. case=..` on stderr, exit 3).
/// If it does not move and no CPU is consumed either (blocked / starved) for
/// a long wall-clock time the run is inconclusive (exit 4).
pub mod watchdog {
    use std::sync::atomic::{AtomicU64, Ordering as AO};
    use std::sync::Mutex;

    static TICKS: AtomicU64 = AtomicU64::new(0);
    static CASE: Mutex<String> = Mutex::new(String::new());
    pub const CPU_LIMIT_S: f64 = 20.0;

    fn cpu_seconds() -> f64 {
        let s = std::fs::read_to_string("/proc/self/stat").unwrap_or_default();
        // fields after the ")" of comm: state is #3; utime #14, stime #15
        let rest = s.rsplit(')').next().unwrap_or("");
        let f: Vec<&str> = rest.split_whitespace().collect();
        let ut: f64 = f.get(11).and_then(|x| x.parse().ok()).unwrap_or(0.0);
        let st: f64 = f.get(12).and_then(|x| x.parse().ok()).unwrap_or(0.0);
        (ut + st) / 100.0
    }

    /// Cheap heartbeat (one relaxed atomic add): called before every library
    /// call of the monitors, so that the watchdog measures library calls and
    /// not the harness' own work on a large case.
    #[inline]
    pub fn beat() {
        TICKS.fetch_add(1, AO::Relaxed);
    }

    pub fn tick(desc: impl FnOnce() -> String) {
        TICKS.fetch_add(1, AO::Relaxed);
        if let Ok(mut c) = CASE.try_lock() {
            *c = desc();
        }
    }

    pub fn start(property: String) {
        if cfg!(miri) {
            // Miri treats a thread that outlives main as an error, and CPU time is meaningless there
            return;
        }
        std::thread::spawn(move || {
            let mut last = TICKS.load(AO::Relaxed);
            let mut cpu_at_change = cpu_seconds();
            let mut wall_at_change = std::time::Instant::now();
            loop {
                std::thread::sleep(std::time::Duration::from_millis(1000));
                let now = TICKS.load(AO::Relaxed);
                if now != last {
                    last = now;
                    cpu_at_change = cpu_seconds();
                    wall_at_change = std::time::Instant::now();
                    continue;
                }
                let case = CASE.lock().map(|c| c.clone()).unwrap_or_default();
                if cpu_seconds() - cpu_at_change >= CPU_LIMIT_S {
                    eprintln!("HANG property={} cpu_s={:.0} case={}", property, cpu_seconds() - cpu_at_change, case);
                    std::process::exit(3);
                }
                if wall_at_change.elapsed().as_secs() > 600 {
                    eprintln!("STALLED property={} case={}", property, case);
                    std::process::exit(4);
                }
            }
        });
    }
}
