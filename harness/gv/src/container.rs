//! C18: graph containers against a key -> node map model, call by call, with
//! edge operations on members and non-members interleaved; DOT exports.

use crate::core::*;
use crate::flav::*;
use crate::report::*;
use crate::types::*;
use serde_json::json;
use std::collections::BTreeMap;

#[derive(Clone, Copy, Debug, PartialEq, Eq)]
pub enum COp {
    /// insert node object (key, variant): variant 0 / 1 are two distinct
    /// node objects with the same key
    Insert(K, u8),
    Remove(K),
    /// connect objects (key, variant) -> (key, variant)
    Connect(K, u8, K, u8),
    /// connect through handles obtained from the container (get / index / to_vec / iter)
    ConnectVia(K, K, u8),
    Disconnect(K, u8, K),
    Isolate(K, u8),
    IsolateVia(K),
}

impl COp {
    fn short(&self) -> String {
        match self {
            COp::Insert(k, v) => format!("ins{}{}", k, if *v == 0 { "a" } else { "b" }),
            COp::Remove(k) => format!("rem{}", k),
            COp::Connect(a, va, b, vb) => format!("c{}{}>{}{}", a, if *va == 0 { "a" } else { "b" }, b, if *vb == 0 { "a" } else { "b" }),
            COp::ConnectVia(a, b, h) => format!("cv{}>{}h{}", a, b, h),
            COp::Disconnect(a, va, b) => format!("d{}{}-{}", a, if *va == 0 { "a" } else { "b" }, b),
            COp::Isolate(a, va) => format!("i{}{}", a, if *va == 0 { "a" } else { "b" }),
            COp::IsolateVia(a) => format!("iv{}", a),
        }
    }
}

pub fn ops_str(h: &[COp]) -> String {
    h.iter().map(|o| o.short()).collect::<Vec<_>>().join(" ")
}

struct CWorld<F: Flav> {
    reg: std::sync::Arc<Registry>,
    /// objs[k][variant]
    objs: Vec<[F::Node; 2]>,
    g: F::Graph,
    /// model: key -> variant that is the member
    model: BTreeMap<K, u8>,
    next_eid: u32,
}

impl<F: Flav> CWorld<F> {
    fn new(nk: usize) -> Self {
        let reg = Registry::new();
        let objs = (0..nk).map(|k| [F::node(k as K, reg.mk(k as i32)), F::node(k as K, reg.mk(100 + k as i32))]).collect();
        CWorld {
            reg,
            objs,
            g: F::g_new(),
            model: BTreeMap::new(),
            next_eid: 1,
        }
    }
    fn inst(&self, k: K, v: u8) -> u64 {
        F::val(&self.objs[k as usize][v as usize]).inst
    }
    fn member_inst(&self, k: K) -> Option<u64> {
        self.model.get(&k).map(|v| self.inst(k, *v))
    }
    fn fresh(&mut self) -> Eid {
        let id = self.next_eid;
        self.next_eid += 1;
        Eid { id, val: id as i32 % 3 }
    }
}

/// Every node object's edge lists, through the original handles: container calls (insert, remove, the views,
/// the exports) are map operations and must leave them alone.
fn adjacency<F: Flav>(w: &CWorld<F>) -> Vec<(Vec<(K, u32)>, Vec<(K, u32)>)> {
    let mut v = vec![];
    for pair in &w.objs {
        for o in pair {
            let out = F::iter_out(o).iter().map(|e| (F::key(F::e_dst(e)), F::e_val(e).id)).collect();
            let inn = F::iter_in(o).iter().map(|e| (F::key(F::e_src(e)), F::e_val(e).id)).collect();
            v.push((out, inn));
        }
    }
    v
}

fn adjacency_diff<F: Flav>(w: &CWorld<F>, before: &[(Vec<(K, u32)>, Vec<(K, u32)>)], what: &str) -> Vec<String> {
    match catch(|| adjacency::<F>(w)) {
        Err(p) => vec![format!("after {} the edges of the node objects can no longer be read: {}", what, p)],
        Ok(after) => {
            for (i, (b, a)) in before.iter().zip(after.iter()).enumerate() {
                if b != a {
                    return vec![format!(
                        "{} changed the edges of node {}{}: before out={:?} in={:?}, after out={:?} in={:?}",
                        what,
                        i / 2,
                        if i % 2 == 0 { "a" } else { "b" },
                        b.0,
                        b.1,
                        a.0,
                        a.1
                    )];
                }
            }
            vec![]
        }
    }
}

fn set_of<F: Flav>(v: &[F::Node]) -> Vec<(K, u64)> {
    let mut s: Vec<(K, u64)> = v.iter().map(|n| (F::key(n), F::val(n).inst)).collect();
    s.sort();
    s
}

/// All read-only container calls against the model.
fn check_views<F: Flav>(w: &CWorld<F>, rep: &mut Report) -> Vec<String> {
    let mut v = vec![];
    let nk = w.objs.len();
    let members: Vec<(K, u64)> = w.model.iter().map(|(k, var)| (*k, w.inst(*k, *var))).collect();
    rep.add("view_checks", 1);
    if F::g_len(&w.g) != members.len() {
        v.push(format!("len() = {} but {} members", F::g_len(&w.g), members.len()));
    }
    if F::g_is_empty(&w.g) != members.is_empty() {
        v.push(format!("is_empty() = {} with {} members", F::g_is_empty(&w.g), members.len()));
    }
    for k in 0..(nk as K + 1) {
        let want = w.member_inst(k);
        if F::g_contains(&w.g, &k) != want.is_some() {
            v.push(format!("contains({}) = {} but member = {}", k, F::g_contains(&w.g, &k), want.is_some()));
        }
        let got = F::g_get(&w.g, &k).map(|n| (F::key(&n), F::val(&n).inst));
        if got != want.map(|i| (k, i)) {
            v.push(format!("get({}) = {:?}, model has {:?}", k, got, want));
        }
        if want.is_some() {
            match catch(|| F::g_index(&w.g, k)) {
                Ok(n) => {
                    if Some(F::val(&n).inst) != want || F::key(&n) != k {
                        v.push(format!("g[{}] is not the inserted node", k));
                    }
                }
                Err(p) => v.push(format!("g[{}] panicked for a member: {}", k, p)),
            }
        }
    }
    let tv = set_of::<F>(&F::g_to_vec(&w.g));
    if tv != members {
        v.push(format!("to_vec() = {:?}, members {:?}", tv, members));
    }
    let it = F::g_iter(&w.g);
    let mut its: Vec<(K, u64)> = vec![];
    for (k, n) in &it {
        if *k != F::key(n) {
            v.push(format!("iter() yields key {} with node {}", k, F::key(n)));
        }
        its.push((*k, F::val(n).inst));
    }
    its.sort();
    if its != members {
        v.push(format!("iter() = {:?}, members {:?}", its, members));
    }
    // roots / leaves / orphans against the members' own predicates (through the original handles)
    let pred = |f: &dyn Fn(&F::Node) -> bool| -> Vec<(K, u64)> {
        let mut s: Vec<(K, u64)> = w
            .model
            .iter()
            .filter(|(k, var)| f(&w.objs[**k as usize][**var as usize]))
            .map(|(k, var)| (*k, w.inst(*k, *var)))
            .collect();
        s.sort();
        s
    };
    if let Some(r) = F::g_roots(&w.g) {
        let want = pred(&|n| F::iter_in(n).is_empty());
        if set_of::<F>(&r) != want {
            v.push(format!("roots() = {:?}, members without incoming edges {:?}", set_of::<F>(&r), want));
        }
    }
    if let Some(r) = F::g_leaves(&w.g) {
        let want = pred(&|n| F::iter_out(n).is_empty());
        if set_of::<F>(&r) != want {
            v.push(format!("leaves() = {:?}, members without outgoing edges {:?}", set_of::<F>(&r), want));
        }
    }
    let want = pred(&|n| F::iter_out(n).is_empty() && F::iter_in(n).is_empty());
    let got = set_of::<F>(&F::g_orphans(&w.g));
    if got != want {
        v.push(format!("orphans() = {:?}, members without edges {:?}", got, want));
    }
    v
}

fn dot_statements(s: &str) -> (Vec<String>, Vec<String>, Vec<String>) {
    // (node statements, edge statements, other lines)
    let mut nodes = vec![];
    let mut edges = vec![];
    let mut other = vec![];
    for l in s.lines() {
        let t = l.trim();
        if t.is_empty() || t == "digraph {" || t == "}" {
            continue;
        }
        if t.contains(" -> ") {
            edges.push(t.to_string());
        } else if t.chars().next().map_or(false, |c| c.is_ascii_digit()) {
            nodes.push(t.to_string());
        } else {
            other.push(t.to_string());
        }
    }
    (nodes, edges, other)
}

fn attrs_ok(stmt_rest: &str, attrs: &Attrs) -> bool {
    match attrs {
        None => !stmt_rest.contains("=\""),
        Some(a) => {
            let n = stmt_rest.matches("=\"").count();
            n == a.len() && a.iter().all(|(k, v)| stmt_rest.contains(&format!("{}=\"{}\"", k, v)))
        }
    }
}

fn check_dot<F: Flav>(w: &CWorld<F>, mode: u8, rep: &mut Report) -> Vec<String> {
    let mut v = vec![];
    let mut want_nodes: Vec<String> = w.model.keys().map(|k| k.to_string()).collect();
    want_nodes.sort();
    let mut want_edges: Vec<(K, K, Eid)> = vec![];
    for (k, var) in &w.model {
        for e in F::iter_into(&w.objs[*k as usize][*var as usize]) {
            want_edges.push((F::key(F::e_src(&e)), F::key(F::e_dst(&e)), *F::e_val(&e)));
        }
    }
    rep.count("dot_exports");
    if !want_edges.is_empty() {
        rep.count("dot_exports_with_edges");
    }
    // plain to_dot
    match catch(|| F::g_to_dot(&w.g)) {
        Err(p) => v.push(format!("to_dot panicked: {}", p)),
        Ok(s) => {
            let (mut n, mut e, other) = dot_statements(&s);
            n.sort();
            e.sort();
            let mut we: Vec<String> = want_edges.iter().map(|(a, b, _)| format!("{} -> {}", a, b)).collect();
            we.sort();
            if n != want_nodes {
                v.push(format!("to_dot node statements {:?}, members {:?}", n, want_nodes));
            }
            if e != we {
                v.push(format!("to_dot edge statements {:?}, edges of members {:?}", e, we));
            }
            if !other.is_empty() {
                v.push(format!("to_dot has unexpected lines {:?}", other));
            }
            if !s.starts_with("digraph {") || !s.trim_end().ends_with('}') {
                v.push("to_dot is not wrapped in `digraph { ... }`".into());
            }
        }
    }
    // with attributes
    let gattr = move || -> Attrs {
        match mode % 3 {
            0 => None,
            1 => Some(vec![("rankdir".to_string(), "LR".to_string())]),
            _ => Some(vec![("rankdir".to_string(), "LR".to_string()), ("label".to_string(), "g".to_string())]),
        }
    };
    let nattr = move |n: &F::Node| -> Attrs {
        match (mode / 3 + F::key(n) as u8) % 3 {
            0 => None,
            1 => Some(vec![("label".to_string(), format!("n{}", F::key(n)))]),
            _ => Some(vec![("label".to_string(), format!("n{}", F::key(n))), ("color".to_string(), "red".to_string())]),
        }
    };
    let eattr = move |a: &F::Node, b: &F::Node, e: &Eid| -> Attrs {
        match (mode / 9 + e.id as u8) % 3 {
            0 => None,
            1 => Some(vec![("label".to_string(), format!("{}", e.id))]),
            _ => Some(vec![("label".to_string(), format!("{}", e.id)), ("w".to_string(), format!("{}{}", F::key(a), F::key(b)))]),
        }
    };
    match catch(|| F::g_to_dot_attr(&w.g, &gattr, &nattr, &eattr)) {
        Err(p) => v.push(format!("to_dot_with_attr panicked: {}", p)),
        Ok(None) => {}
        Ok(Some(s)) => {
            rep.count("dot_attr_exports");
            let (n, e, other) = dot_statements(&s);
            // node statements
            let mut seen: Vec<String> = vec![];
            for st in &n {
                let key: String = st.chars().take_while(|c| c.is_ascii_digit()).collect();
                let rest = &st[key.len()..];
                seen.push(key.clone());
                let k: K = key.parse().unwrap_or(9999);
                match w.model.get(&k) {
                    Some(var) => {
                        let a = nattr(&w.objs[k as usize][*var as usize]);
                        if !attrs_ok(rest, &a) {
                            v.push(format!("to_dot_with_attr node statement `{}` does not carry the supplied attributes {:?}", st, a));
                        }
                    }
                    None => v.push(format!("to_dot_with_attr has a node statement for non-member {}", key)),
                }
            }
            seen.sort();
            if seen != want_nodes {
                v.push(format!("to_dot_with_attr node statements {:?}, members {:?}", seen, want_nodes));
            }
            // edge statements: match each wanted edge (with its attributes) to one statement
            let mut pool = e.clone();
            for (a, b, ev) in &want_edges {
                let prefix = format!("{} -> {}", a, b);
                let at = eattr(&w.objs[*a as usize][0], &w.objs[*b as usize][0], ev);
                let pos = pool.iter().position(|st| {
                    st.starts_with(&prefix) && {
                        let rest = &st[prefix.len()..];
                        (rest.is_empty() || rest.starts_with(' ')) && attrs_ok(rest, &at)
                    }
                });
                match pos {
                    Some(i) => {
                        pool.remove(i);
                    }
                    None => v.push(format!("to_dot_with_attr has no statement `{}` with attributes {:?}", prefix, at)),
                }
            }
            if !pool.is_empty() {
                v.push(format!("to_dot_with_attr has extra edge statements {:?}", pool));
            }
            let ga = gattr();
            let want_other = ga.map_or(0, |a| a.len());
            if other.len() != want_other {
                v.push(format!("to_dot_with_attr graph attribute lines {:?}, {} supplied", other, want_other));
            } else if let Some(a) = gattr() {
                for (k, val) in a {
                    if !other.iter().any(|l| l == &format!("{}=\"{}\"", k, val)) {
                        v.push(format!("to_dot_with_attr lacks graph attribute {}=\"{}\"", k, val));
                    }
                }
            }
        }
    }
    v
}

/// Applies one op to the implementation and to the model; returns discrepancies
/// in the op's own return value / effect.
fn apply<F: Flav>(w: &mut CWorld<F>, op: COp, rep: &mut Report) -> Vec<String> {
    let mut v = vec![];
    rep.count(&format!("cop.{}", match op {
        COp::Insert(..) => "insert",
        COp::Remove(..) => "remove",
        COp::Connect(..) => "connect",
        COp::ConnectVia(..) => "connect_via_container_handle",
        COp::Disconnect(..) => "disconnect",
        COp::Isolate(..) => "isolate",
        COp::IsolateVia(..) => "isolate_via_container_handle",
    }));
    let before = match op {
        COp::Insert(..) | COp::Remove(..) => catch(|| adjacency::<F>(w)).ok(),
        _ => None,
    };
    match op {
        COp::Insert(k, var) => {
            let want = !w.model.contains_key(&k);
            let node = w.objs[k as usize][var as usize].clone();
            match catch(|| F::g_insert(&mut w.g, node)) {
                Err(p) => v.push(format!("insert panicked: {}", p)),
                Ok(r) => {
                    if r != want {
                        v.push(format!("insert({}) returned {} but key present = {}", k, r, !want));
                    }
                    if want {
                        w.model.insert(k, var);
                    } else {
                        rep.count("insert_on_present_key");
                        if w.model[&k] != var {
                            rep.count("insert_of_other_object_on_present_key");
                        }
                    }
                }
            }
        }
        COp::Remove(k) => {
            let want = w.member_inst(k);
            match catch(|| F::g_remove(&mut w.g, &k)) {
                Err(p) => v.push(format!("remove panicked: {}", p)),
                Ok(r) => {
                    let got = r.map(|n| F::val(&n).inst);
                    if got != want {
                        v.push(format!("remove({}) returned {:?}, model has {:?}", k, got, want));
                    }
                    if want.is_none() {
                        rep.count("remove_of_absent_key");
                    }
                    w.model.remove(&k);
                }
            }
        }
        COp::Connect(a, va, b, vb) => {
            let e = w.fresh();
            let (x, y) = (w.objs[a as usize][va as usize].clone(), w.objs[b as usize][vb as usize].clone());
            if !w.model.contains_key(&a) || !w.model.contains_key(&b) {
                rep.count("edge_ops_touching_non_members");
            }
            if let Err(p) = catch(|| F::connect(&x, &y, e)) {
                v.push(format!("connect panicked: {}", p));
            }
        }
        COp::ConnectVia(a, b, how) => {
            // handles from the container; the effect must be visible through the original handles
            let (Some(va), Some(vb)) = (w.model.get(&a).copied(), w.model.get(&b).copied()) else {
                return v;
            };
            // only the variant-a object of a key ever gets edges (connected nodes have distinct keys)
            if va != 0 || vb != 0 {
                return v;
            }
            let e = w.fresh();
            let fetch = |k: K| -> Option<F::Node> {
                match how % 4 {
                    0 => F::g_get(&w.g, &k),
                    1 => Some(F::g_index(&w.g, k)),
                    2 => F::g_to_vec(&w.g).into_iter().find(|n| F::key(n) == k),
                    _ => F::g_iter(&w.g).into_iter().find(|(kk, _)| *kk == k).map(|(_, n)| n),
                }
            };
            let before = F::out_degree(&w.objs[a as usize][va as usize]);
            match catch(|| {
                let (x, y) = (fetch(a).expect("member not handed out"), fetch(b).expect("member not handed out"));
                F::connect(&x, &y, e);
            }) {
                Err(p) => v.push(format!("connect through container handles panicked: {}", p)),
                Ok(()) => {
                    let orig = &w.objs[a as usize][va as usize];
                    let listed = F::iter_out(orig).iter().any(|x| *F::e_val(x) == e && F::val(F::e_dst(x)).inst == w.inst(b, vb));
                    let after = F::out_degree(orig);
                    let grow = if !F::DIRECTED && a == b { 2 } else { 1 };
                    if !listed || after != before + grow {
                        v.push(format!("edge {}->{} made through handles handed out by the container is not visible through the original handle", a, b));
                    }
                    rep.count("changes_through_handed_out_nodes");
                }
            }
        }
        COp::Disconnect(a, va, b) => {
            let x = w.objs[a as usize][va as usize].clone();
            if let Err(p) = catch(|| {
                let _ = F::disconnect(&x, &b);
            }) {
                v.push(format!("disconnect panicked: {}", p));
            }
        }
        COp::Isolate(a, va) => {
            let x = w.objs[a as usize][va as usize].clone();
            if let Err(p) = catch(|| F::isolate(&x)) {
                v.push(format!("isolate panicked: {}", p));
            }
        }
        COp::IsolateVia(a) => {
            if let Some(va) = w.model.get(&a).copied().filter(|va| *va == 0) {
                match catch(|| {
                    let h = F::g_get(&w.g, &a).expect("member not handed out");
                    F::isolate(&h);
                }) {
                    Err(p) => v.push(format!("isolate through a container handle panicked: {}", p)),
                    Ok(()) => {
                        if !F::is_orphan(&w.objs[a as usize][va as usize]) {
                            v.push(format!("isolate through a container handle left edges on the original handle of {}", a));
                        }
                    }
                }
            }
        }
    }
    if let Some(b) = before {
        v.extend(adjacency_diff::<F>(w, &b, if matches!(op, COp::Insert(..)) { "insert" } else { "remove" }));
        rep.count("adjacency_rechecks_after_insert_remove");
    }
    v
}

/// Runs a history with the oracle after every call; returns (index, msgs) of
/// the first failing call.
pub fn run_history<F: Flav>(nk: usize, hist: &[COp], dot_mode: u8, rep: &mut Report) -> Option<(usize, Vec<String>)> {
    let mut w = CWorld::<F>::new(nk);
    for (i, op) in hist.iter().enumerate() {
        rep.count("evaluations");
        let mut m = apply::<F>(&mut w, *op, rep);
        let before = catch(|| adjacency::<F>(&w)).ok();
        match catch(|| {
            let mut r = Report::new();
            let x = check_views::<F>(&w, &mut r);
            x
        }) {
            Ok(x) => m.extend(x),
            Err(p) => m.push(format!("a container query panicked: {}", p)),
        }
        if let Some(b) = &before {
            m.extend(adjacency_diff::<F>(&w, b, "a read-only container call (len/get/index/to_vec/iter/roots/leaves/orphans)"));
        }
        if !m.is_empty() {
            return Some((i, m));
        }
    }
    let before = catch(|| adjacency::<F>(&w)).ok();
    let mut m = check_dot::<F>(&w, dot_mode, rep);
    if let Some(b) = &before {
        m.extend(adjacency_diff::<F>(&w, b, "a DOT export"));
    }
    if !m.is_empty() {
        return Some((hist.len().saturating_sub(1), m));
    }
    let _ = &w.reg;
    None
}

fn report_failure<F: Flav>(rep: &mut Report, nk: usize, hist: &[COp], idx: usize, dot_mode: u8, msgs: &[String]) {
    let cls: String = msgs[0].chars().filter(|c| !c.is_ascii_digit()).take(50).collect();
    rep.violation(
        "C18",
        format!("{}|{}", F::NAME, cls),
        format!("[{}] container history `{}` (keys 0..{}), call #{}: {}", F::NAME, ops_str(&hist[..=idx.min(hist.len().saturating_sub(1))]), nk, idx, msgs.join("; ")),
        json!({"kind":"container","prop":"C18","flavour":F::NAME,"keys":nk,"dot_mode":dot_mode,
               "history": ops_str(hist)}),
    );
}

fn alphabet(nk: usize) -> Vec<COp> {
    let mut v = vec![];
    for k in 0..nk as K {
        v.push(COp::Insert(k, 0));
        v.push(COp::Insert(k, 1));
        v.push(COp::Remove(k));
        v.push(COp::Isolate(k, 0));
        v.push(COp::IsolateVia(k));
        for b in 0..nk as K {
            v.push(COp::Connect(k, 0, b, 0));
            v.push(COp::ConnectVia(k, b, (k + b) as u8));
            v.push(COp::Disconnect(k, 0, b));
        }
    }
    v
}

pub fn run<F: Flav>(rep: &mut Report, nk: usize, depth: usize, random: u64, hist_len: usize, shard: u64, nshards: u64, rng: &mut Rng) {
    let alpha = alphabet(nk);
    let base = alpha.len() as u64;
    let total = base.pow(depth as u32);
    let mut idx = shard;
    while idx < total {
        let mut i = idx;
        let mut h = vec![];
        for _ in 0..depth {
            h.push(alpha[(i % base) as usize]);
            i /= base;
        }
        rep.count("enumerated_histories");
        rep.distinct(fnv_str(&format!("{}|{}", F::NAME, ops_str(&h))));
        if rep.samples.len() < 2 && idx % 7919 == 11 {
            rep.sample(json!({"flavour":F::NAME,"enumerated_container_history":ops_str(&h)}));
        }
        if let Some((i, m)) = run_history::<F>(nk, &h, (idx % 27) as u8, rep) {
            report_failure::<F>(rep, nk, &h, i, (idx % 27) as u8, &m);
            if rep.total_violations() > 200 {
                return;
            }
        }
        idx += nshards;
    }
    rep.count("enumerations_completed");
    for hi in 0..random {
        let big = hi % 3 == 2;
        let nk = if big { 7 + rng.below(18) } else { 2 + rng.below(5) };
        let a = alphabet(nk);
        let inserts: Vec<COp> = a.iter().copied().filter(|o| matches!(o, COp::Insert(..))).collect();
        let mut h = vec![];
        if big {
            rep.count("random_histories_7_to_24_keys");
            // fill most of the container first
            for _ in 0..(nk + rng.below(nk)) {
                h.push(*rng.pick(&inserts));
            }
        }
        for _ in 0..(if big { hist_len + 100 } else { hist_len }) {
            let mut op = *rng.pick(&a);
            if big && rng.chance(1, 6) {
                // remove and re-insert (possibly the other object of that key)
                let k = rng.below(nk) as K;
                h.push(COp::Remove(k));
                op = COp::Insert(k, rng.below(2) as u8);
            }
            // edge operations stay on the variant-a objects: the node properties
            // presuppose distinct keys among connected nodes
            if let COp::ConnectVia(x, y, _) = op {
                op = COp::ConnectVia(x, y, rng.below(4) as u8);
            }
            h.push(op);
        }
        rep.count("random_histories");
        rep.distinct(fnv_str(&format!("{}|{}", F::NAME, ops_str(&h))));
        if hi == 0 {
            rep.sample(json!({"flavour":F::NAME,"random_container_history_first_calls":ops_str(&h[..h.len().min(20)]),"length":h.len()}));
        }
        let dm = rng.below(27) as u8;
        if let Some((i, m)) = run_history::<F>(nk, &h, dm, rep) {
            report_failure::<F>(rep, nk, &h[..=i], i, dm, &m);
            if rep.total_violations() > 200 {
                return;
            }
        }
    }
}

fn var(c: char) -> u8 {
    if c == 'b' {
        1
    } else {
        0
    }
}

fn parse_cop(t: &str) -> Option<COp> {
    let num = |s: &str| -> Option<K> { s.chars().take_while(|c| c.is_ascii_digit()).collect::<String>().parse().ok() };
    let after = |s: &str| -> String { s.chars().skip_while(|c| c.is_ascii_digit()).collect() };
    if let Some(r) = t.strip_prefix("ins") {
        return Some(COp::Insert(num(r)?, var(after(r).chars().next()?)));
    }
    if let Some(r) = t.strip_prefix("rem") {
        return Some(COp::Remove(num(r)?));
    }
    if let Some(r) = t.strip_prefix("cv") {
        let mut it = r.split('>');
        let a = num(it.next()?)?;
        let rest = it.next()?;
        let b = num(rest)?;
        let h: u8 = after(rest).trim_start_matches('h').parse().ok()?;
        return Some(COp::ConnectVia(a, b, h));
    }
    if let Some(r) = t.strip_prefix("iv") {
        return Some(COp::IsolateVia(num(r)?));
    }
    if let Some(r) = t.strip_prefix('c') {
        let mut it = r.split('>');
        let l = it.next()?;
        let rr = it.next()?;
        return Some(COp::Connect(num(l)?, var(after(l).chars().next()?), num(rr)?, var(after(rr).chars().next()?)));
    }
    if let Some(r) = t.strip_prefix('d') {
        let mut it = r.split('-');
        let l = it.next()?;
        return Some(COp::Disconnect(num(l)?, var(after(l).chars().next()?), num(it.next()?)?));
    }
    if let Some(r) = t.strip_prefix('i') {
        return Some(COp::Isolate(num(r)?, var(after(r).chars().next()?)));
    }
    None
}

pub fn replay<F: Flav>(v: &serde_json::Value) -> bool {
    let nk = v["keys"].as_u64().unwrap_or(3) as usize;
    let dm = v["dot_mode"].as_u64().unwrap_or(0) as u8;
    let hist: Vec<COp> = v["history"].as_str().unwrap_or("").split_whitespace().filter_map(parse_cop).collect();
    let mut rep = Report::new();
    match run_history::<F>(nk, &hist, dm, &mut rep) {
        Some((i, m)) => {
            println!("container history `{}` fails at call #{}", ops_str(&hist), i);
            for x in m {
                println!("DISCREPANCY: {}", x);
            }
            true
        }
        None => {
            println!("container history `{}` passes", ops_str(&hist));
            false
        }
    }
}
