use gv::core::*;
use gv::report::*;
use gv::types::*;
use gv::*;

fn shard_flavours(sel: &[&'static str], shard: u64, nshards: u64) -> Vec<&'static str> {
    // enumeration work is split by flavour across the first shards
    sel.iter()
        .enumerate()
        .filter(|(i, _)| (*i as u64) % nshards == shard % nshards && shard < sel.len() as u64)
        .map(|(_, f)| *f)
        .collect()
}

fn main() {
    let argv: Vec<String> = std::env::args().collect();
    let cmd = argv.get(1).cloned().unwrap_or_default();
    let args = Args(argv);
    install_panic_hook();
    let st = install_st_observer();
    let prop = args.str("prop", "C03");
    let thorough = args.str("tier", "quick") == "thorough";
    let seed = args.num("seed", 1);
    let shard = args.num("shard", 0);
    let nshards = args.num("nshards", 1).max(1);
    let out = args.str("out", "/dev/stdout");
    let mut rep = Report::new();
    let mut rng = Rng::new(seed.wrapping_mul(1_000_003).wrapping_add(shard));
    match cmd.as_str() {
        "seq" => {
            let sel: Vec<&'static str> = match prop.as_str() {
                "C01" => vec!["digraph", "sync_digraph"],
                "C02" => vec!["ungraph", "sync_ungraph"],
                _ => vec!["digraph", "sync_digraph", "ungraph", "sync_ungraph"],
            };
            let total_hist = args.num("histories", if thorough { 150000 } else { 4000 });
            let cfg = seq::SeqCfg {
                prop: prop.clone(),
                nodes: args.num("nodes", 3) as usize,
                max_edges: args.num("max-edges", if thorough { 4 } else { 3 }) as usize,
                random_hist: total_hist / nshards / sel.len() as u64 + 1,
                hist_len: args.num("hist-len", 300) as usize,
                seed,
                do_enum: true,
            };
            for f in shard_flavours(&sel, shard, nshards) {
                for_flavours!(f, F, { seq::run_enum::<F>(&mut rep, &cfg) });
            }
            for f in &sel {
                for_flavours!(f, F, { seq::run_random::<F>(&mut rep, &cfg, &mut rng) });
            }
        }
        "search" => {
            watchdog::start(prop.clone());
            let bounds: Vec<(usize, usize)> = args
                .str("bounds", "3:3")
                .split(',')
                .filter_map(|b| {
                    let mut it = b.split(':');
                    Some((it.next()?.parse().ok()?, it.next()?.parse().ok()?))
                })
                .collect();
            let sel = if prop == "C08" { "directed" } else { "all" };
            let nfl = if prop == "C08" { 2 } else { 4 };
            let rc = search::SearchCfgRun {
                prop: prop.clone(),
                bounds,
                random_graphs: args.num("random", 40) / nshards / nfl + 1,
                shard,
                nshards,
                seed,
                stride: 1,
            };
            for_flavours!(sel, F, {
                search::run_enumeration::<F>(&rc, &mut rep);
                search::run_random::<F>(&rc, &mut rep, &mut rng);
                search::run_large::<F>(&rc, &mut rep, &mut rng, args.num("large", 64) / nshards / nfl + 1);
                if prop == "C06" && shard == 0 {
                    search::eval_cmp::<F>(&mut rep);
                }
            });
        }
        "scc" => {
            let max_n = args.num("max-n", 3) as usize;
            let inst = args.num("instances", 3) as usize;
            let random = args.num("random", 40) / nshards / 2 + 1;
            for_flavours!("directed", F, { scc::run::<F>(&mut rep, max_n, inst, random, shard, nshards, &mut rng) });
        }
        "serde_rt" => {
            let max_n = args.num("max-n", 3) as usize;
            let max_e = args.num("max-e", 3) as usize;
            let random = args.num("random", 40) / nshards / 4 + 1;
            for_flavours!("all", F, { serde_rt::run::<F>(&mut rep, max_n, max_e, random, shard, nshards, &mut rng) });
            serde_rt::run_typed(&mut rng, &mut rep, args.num("typed", 200) / nshards + 1);
        }
        "serde_fuzz" => {
            watchdog::start(prop.clone());
            let random = args.num("random", 2000) / nshards / 4 + 1;
            for_flavours!("all", F, { serde_fuzz::run::<F>(&mut rep, random, shard, nshards, &mut rng) });
        }
        "container" => {
            let nk = args.num("keys", 2) as usize;
            let depth = args.num("depth", 3) as usize;
            let random = args.num("random", 100) / nshards / 4 + 1;
            let hl = args.num("hist-len", 300) as usize;
            for_flavours!("all", F, { container::run::<F>(&mut rep, nk, depth, random, hl, shard, nshards, &mut rng) });
        }
        "leak" => {
            let max_n = args.num("max-n", 2) as usize;
            let max_e = args.num("max-e", 2) as usize;
            let random = args.num("random", 100) / nshards / 4 + 1;
            let sel = args.str("flavours", "all");
            for_flavours!(sel.as_str(), F, { leak::run::<F>(&mut rep, max_n, max_e, random, shard, nshards, &mut rng) });
        }
        "mutate" => {
            watchdog::start(prop.clone());
            let max_n = args.num("max-n", 3) as usize;
            let max_e = args.num("max-e", 1) as usize;
            let random = args.num("random", 1000) / nshards / 4 + 1;
            let cs = args.num("case-stride", 1);
            for_flavours!("all", F, { mutate::run::<F>(&mut rep, max_n, max_e, random, shard, nshards, &mut rng, cs) });
        }
        "dropin" => {
            let programs = args.num("programs", 200) / nshards + 1;
            let len = args.num("len", 300) as usize;
            let me = args.num("max-edges", 2) as usize;
            dropin::run_enumerated::<flav::PlainDi, flav::SyncDi>(&mut rep, 3, me, shard, nshards);
            dropin::run_enumerated::<flav::PlainUn, flav::SyncUn>(&mut rep, 3, me, shard, nshards);
            dropin::run(&mut rep, programs, len, &mut rng);
            let mc = args.num("mutating", 20000) / nshards + 1;
            dropin::run_mutating::<flav::PlainDi, flav::SyncDi>(&mut rep, mc, &mut rng);
            dropin::run_mutating::<flav::PlainUn, flav::SyncUn>(&mut rep, mc, &mut rng);
        }
        "conc" => {
            watchdog::start(prop.clone());
            rep.max_violations_per_key = 1;
            let pool = conc::Pool::new(4);
            let mut shapes: Vec<(Vec<usize>, usize)> = vec![];
            for sh in args.str("shapes", "1+1:1").split(',') {
                let (a, b) = sh.split_once(':').unwrap_or((sh, "1"));
                shapes.push((a.split('+').filter_map(|x| x.parse().ok()).collect(), b.parse().unwrap_or(1)));
            }
            let rc = conc_check::RunCfg {
                shapes,
                budget: args.num("budget", 20000),
                shard,
                nshards,
                stride: args.num("stride", 1),
                emit_known: args.flag("emit-known"),
                targeted: args.flag("targeted"),
                targeted_budget: args.num("targeted-budget", 5000),
                sampled_budget: args.num("sampled-budget", 3000),
                seed: args.num("seed", 1),
            };
            let sel = args.str("flavours", "sync");
            if sel == "sync" || sel == "sync_digraph" {
                conc_check::run::<flav::SyncDi>(&pool, &rc, &mut rep);
            }
            if sel == "sync" || sel == "sync_ungraph" {
                conc_check::run::<flav::SyncUn>(&pool, &rc, &mut rep);
            }
            use std::sync::atomic::Ordering as AO2;
            rep.add("lock_events.before", pool.shared.ev_before.load(AO2::Relaxed));
            rep.add("lock_events.acquired", pool.shared.ev_acquired.load(AO2::Relaxed));
            rep.add("lock_events.released", pool.shared.ev_released.load(AO2::Relaxed));
        }
        "stress" => {
            watchdog::start(prop.clone());
            let iters = args.num("iterations", 50);
            let ops = args.num("ops", 300) as usize;
            let s = seed.wrapping_mul(7919).wrapping_add(shard);
            if shard % 2 == 0 {
                stress::run::<flav::SyncDi>(&mut rep, iters, ops, s, &out);
            } else {
                stress::run::<flav::SyncUn>(&mut rep, iters, ops, s, &out);
            }
        }
        "conc_free" => {
            // real threads, real lock, no observer (this is what runs under Miri)
            gdsl::verif_hook::uninstall();
            let list = conc_check::free_scenarios();
            let which = args.num("index", 0) as usize % list.len();
            let sc = conc::Scenario::parse(list[which]).expect("harness: bad free scenario");
            let reps = args.num("reps", 1);
            for _ in 0..reps {
                if shard % 2 == 0 {
                    conc_check::run_free::<flav::SyncDi>(&sc, &mut rep);
                } else {
                    conc_check::run_free::<flav::SyncUn>(&sc, &mut rep);
                }
            }
            rep.distinct(types::fnv_str(&format!("{}|{}", shard % 2, list[which])));
            rep.distinct(types::fnv_str("free"));
        }
        "replay" => {
            let path = args.str("file", "");
            let txt = std::fs::read_to_string(&path).expect("cannot read replay file");
            let v: serde_json::Value = serde_json::from_str(&txt).expect("bad replay json");
            let r = &v["replay"];
            let fl = r["flavour"].as_str().unwrap_or("digraph").to_string();
            let mut reproduced = false;
            match r["kind"].as_str().unwrap_or("") {
                "seq" | "seq_history" => {
                    for_flavours!(fl.as_str(), F, { reproduced |= seq::replay::<F>(r) });
                }
                "search" | "cmp" => {
                    for_flavours!(fl.as_str(), F, { reproduced |= search::replay::<F>(r) });
                }
                "scc" => {
                    for_flavours!(fl.as_str(), F, { reproduced |= scc::replay::<F>(r) });
                }
                "serde_rt" => {
                    for_flavours!(fl.as_str(), F, { reproduced |= serde_rt::replay::<F>(r) });
                }
                "serde_doc" => {
                    for_flavours!(fl.as_str(), F, { reproduced |= serde_fuzz::replay::<F>(r) });
                }
                "container" => {
                    for_flavours!(fl.as_str(), F, { reproduced |= container::replay::<F>(r) });
                }
                "leak" => {
                    for_flavours!(fl.as_str(), F, { reproduced |= leak::replay::<F>(r) });
                }
                "mutate" => {
                    for_flavours!(fl.as_str(), F, { reproduced |= mutate::replay::<F>(r) });
                }
                "conc" => {
                    let pool = conc::Pool::new(4);
                    if fl == "sync_digraph" {
                        reproduced |= conc_check::replay::<flav::SyncDi>(&pool, r);
                    } else {
                        reproduced |= conc_check::replay::<flav::SyncUn>(&pool, r);
                    }
                }
                k => println!("replay kind {} not supported by this binary", k),
            }
            println!("{}", if reproduced { "REPRODUCED" } else { "NOT REPRODUCED" });
            std::process::exit(if reproduced { 1 } else { 0 });
        }
        "noop" => {}
        _ => {
            eprintln!("usage: gv <seq|replay> ...");
            std::process::exit(2);
        }
    }
    use std::sync::atomic::Ordering as AO;
    rep.add("lock_events.before", st.before.load(AO::Relaxed));
    rep.add("lock_events.acquired", st.acquired.load(AO::Relaxed));
    rep.add("lock_events.released", st.released.load(AO::Relaxed));
    rep.add("lock_events.self_deadlocks_reported", st.selfdead.load(AO::Relaxed));
    rep.write(&out);
}
