//! C17 orchestration: scenario enumeration, both fairness modes, anomaly
//! classification, minimisation of larger failing scenarios, findings keys.

use crate::conc::*;
use crate::flav::*;
use crate::report::*;
use crate::types::*;
use serde_json::json;
use std::collections::{HashMap, HashSet};

pub fn all_calls(n: usize, with_queries: bool) -> Vec<CCall> {
    let mut v = vec![];
    let nk = n as K;
    for a in 0..nk {
        for b in 0..nk {
            v.push(CCall::Connect(a, b));
            v.push(CCall::TryConnect(a, b));
            v.push(CCall::Disconnect(a, b));
            if with_queries {
                v.push(CCall::QConn(a, b));
            }
        }
        v.push(CCall::Isolate(a));
        if with_queries {
            v.push(CCall::QDeg(a));
            v.push(CCall::Walk(a));
        }
    }
    v
}

fn init_sets(n: usize, max: usize) -> Vec<Vec<(K, K)>> {
    let pairs: Vec<(K, K)> = (0..n as K).flat_map(|a| (0..n as K).map(move |b| (a, b))).collect();
    let mut v: Vec<Vec<(K, K)>> = vec![vec![]];
    let mut last: Vec<Vec<(K, K)>> = vec![vec![]];
    for _ in 0..max {
        let mut next = vec![];
        for s in &last {
            for p in &pairs {
                let mut t = s.clone();
                t.push(*p);
                next.push(t);
            }
        }
        v.extend(next.iter().cloned());
        last = next;
    }
    v
}

/// All canonical scenarios with the given thread shape (calls per thread).
pub fn enum_scenarios(n: usize, init_max: usize, shape: &[usize]) -> Vec<Scenario> {
    // queries take part in the exhaustively explored two-call scenarios; the larger shapes are built from
    // mutating calls only (a query adds no state change: it is covered against every mutation in the small
    // space, in the stress layer and under Miri)
    let calls = all_calls(n, shape.iter().sum::<usize>() <= 2);
    let mut seen: HashSet<Scenario> = HashSet::new();
    let mut out = vec![];
    // all thread bodies
    fn bodies(calls: &[CCall], len: usize) -> Vec<Vec<CCall>> {
        let mut v: Vec<Vec<CCall>> = vec![vec![]];
        for _ in 0..len {
            let mut nx = vec![];
            for b in &v {
                for c in calls {
                    let mut t = b.clone();
                    t.push(*c);
                    nx.push(t);
                }
            }
            v = nx;
        }
        v
    }
    let per_thread: Vec<Vec<Vec<CCall>>> = shape.iter().map(|l| bodies(&calls, *l)).collect();
    let inits = init_sets(n, init_max);
    let mut idx = vec![0usize; shape.len()];
    loop {
        let threads: Vec<Vec<CCall>> = idx.iter().enumerate().map(|(t, i)| per_thread[t][*i].clone()).collect();
        // at least one mutating call, and not all threads pure queries against nothing
        let muts = threads.iter().flatten().filter(|c| c.mutating()).count();
        if muts >= 1 {
            for init in &inits {
                let sc = Scenario {
                    n,
                    init: init.clone(),
                    threads: threads.clone(),
                }
                .canonical();
                if seen.insert(sc.clone()) {
                    out.push(sc);
                }
            }
        }
        // next index vector
        let mut t = 0;
        loop {
            if t == idx.len() {
                out.sort();
                return out;
            }
            idx[t] += 1;
            if idx[t] < per_thread[t].len() {
                break;
            }
            idx[t] = 0;
            t += 1;
        }
    }
}

#[derive(Clone, Debug)]
pub struct Verdict {
    pub perm: ScnResult,
    pub wp: ScnResult,
}

impl Verdict {
    pub fn failing(&self) -> bool {
        !self.perm.kinds().is_empty() || !self.wp.kinds().is_empty()
    }
    pub fn kinds(&self) -> Vec<String> {
        let mut k: Vec<String> = vec![];
        for x in self.perm.kinds() {
            k.push(x.to_string());
        }
        for x in self.wp.kinds() {
            let name = if x == "deadlock" && self.perm.n_deadlock == 0 { "deadlock(writer-preferring)".to_string() } else { x.to_string() };
            if !k.contains(&name) {
                k.push(name);
            }
        }
        k.sort();
        k
    }
    pub fn capped(&self) -> bool {
        self.perm.capped || self.wp.capped
    }
    pub fn signature(&self) -> u64 {
        fnv_str(&format!("{:x}|{:x}|{:?}", self.perm.signature, self.wp.signature, self.kinds()))
    }
}

pub struct Checker<'a> {
    pub pool: &'a Pool,
    pub budget: u64,
    pub memo: HashMap<(String, String), Verdict>,
}

fn has_reads(sc: &Scenario) -> bool {
    sc.threads.iter().flatten().any(|c| !matches!(c, CCall::Connect(..)))
}

impl<'a> Checker<'a> {
    pub fn verdict<F: Flav>(&mut self, sc: &Scenario) -> Verdict
    where
        F::Node: Send + Sync,
    {
        let key = (F::NAME.to_string(), sc.text());
        if let Some(v) = self.memo.get(&key) {
            return v.clone();
        }
        let perm = explore::<F>(self.pool, sc, Fairness::Permissive, self.budget);
        let wp = if has_reads(sc) { explore::<F>(self.pool, sc, Fairness::WriterPreferring, self.budget) } else { perm.clone() };
        let v = Verdict { perm, wp };
        self.memo.insert(key, v.clone());
        v
    }

    /// Greedy reduction to a locally minimal failing scenario that shares an
    /// anomaly kind with the original.
    pub fn minimise<F: Flav>(&mut self, sc: &Scenario, v: &Verdict) -> (Scenario, Verdict)
    where
        F::Node: Send + Sync,
    {
        let mut cur = sc.clone();
        let mut cv = v.clone();
        'outer: loop {
            let kinds = cv.kinds();
            for sub in cur.sub_scenarios() {
                let sub = sub.canonical();
                let sv = self.verdict::<F>(&sub);
                if sv.failing() && sv.kinds().iter().any(|k| kinds.contains(k)) {
                    cur = sub;
                    cv = sv;
                    continue 'outer;
                }
            }
            return (cur, cv);
        }
    }
}

/// The op-pair class of a scenario: its threads with the initial edges
/// dropped, in canonical form (the call-site pair with its sharing pattern).
pub fn class_of(sc: &Scenario) -> String {
    let c = Scenario {
        n: sc.n,
        init: vec![],
        threads: sc.threads.clone(),
    }
    .canonical();
    c.threads.iter().map(|t| t.iter().map(|c| c.short()).collect::<Vec<_>>().join("; ")).collect::<Vec<_>>().join(" || ")
}

/// flavour ## class ## scenario ## kinds ## signature.  `sc` / `v` are the scenario that was explored and its
/// verdict; `root` is its locally minimal failing sub-scenario (the scenario itself for two-thread one-call
/// scenarios), whose call pattern names the class.  The scenario, its anomaly kinds and - when the exploration was
/// not budget-capped - the signature (hash of the set of bad outcomes over all schedules, both fairness modes) are
/// those of the explored scenario itself: a scenario that is clean on the reference tree is never excused by a
/// known finding of one of its parts.
pub fn finding_key<F: Flav>(sc: &Scenario, v: &Verdict, root: &Scenario) -> String {
    format!(
        "{} ## {} ## {} ## {} ## {}",
        F::NAME,
        class_of(root),
        sc.text(),
        v.kinds().join("+"),
        if !v.capped() { format!("sig={:x}", v.signature()) } else { "nosig".to_string() }
    )
}

pub fn describe<F: Flav>(sc: &Scenario, v: &Verdict) -> String {
    let mut s = format!("[{}] {} : {}", F::NAME, sc.text(), v.kinds().join(", "));
    for (name, r) in [("permissive", &v.perm), ("writer-preferring", &v.wp)] {
        if r.kinds().is_empty() {
            continue;
        }
        s.push_str(&format!(
            " | {}: {} of {} schedules bad ({} deadlock, {} panic, {} non-serialisable){}",
            name,
            r.n_deadlock + r.n_panic + r.n_nonserial,
            r.schedules,
            r.n_deadlock,
            r.n_panic,
            r.n_nonserial,
            if r.capped { ", budget-capped" } else { "" }
        ));
        if let Some((sch, d)) = r.deadlocks.first() {
            s.push_str(&format!("; deadlock at schedule {:?}: {}", sch, d));
        }
        if let Some((sch, d)) = r.panics.first() {
            s.push_str(&format!("; panic at schedule {:?}: {}", sch, d));
        }
        if let Some((sch, o)) = r.nonserial.first() {
            s.push_str(&format!("; schedule {:?} ends in {} which no sequential order produces", sch, o.text()));
        }
    }
    s
}

/// Hand-picked scenarios beyond the exhaustively enumerated two-call space: three threads around a ring of
/// nodes, readers between two writers, two calls against one.  All involve only call pairs that are clean on the
/// reference tree; each is explored with a schedule budget (a capped exploration is partial, not a verdict).
pub fn targeted_scenarios() -> Vec<&'static str> {
    vec![
        "n=3 init=[(0, 1), (1, 2), (2, 0)] | disconnect(0,1) || disconnect(1,2) || disconnect(2,0)",
        "n=3 init=[] | connect(0,1) || connect(1,2) || connect(2,0)",
        "n=3 init=[] | try_connect(0,1) || try_connect(1,2) || try_connect(2,0)",
        "n=3 init=[(0, 1), (1, 2), (2, 0)] | disconnect(0,1); connect(0,1) || disconnect(1,2); connect(1,2)",
        "n=2 init=[(0, 1), (1, 0)] | walk(0) || walk(1) || connect(0,0)",
        "n=2 init=[(0, 1), (1, 0)] | walk(0) || walk(1) || disconnect(0,1)",
        "n=3 init=[(0, 1), (1, 2)] | q_deg(1); q_conn(1,2) || connect(0,2) || disconnect(0,1)",
        "n=3 init=[(0, 1)] | connect(0,2); disconnect(0,1) || connect(1,2); q_deg(0)",
        "n=2 init=[(0, 0), (0, 1)] | disconnect(0,0) || q_deg(0); walk(0); q_conn(0,0)",
        "n=3 init=[(0, 1), (0, 2)] | disconnect(0,1) || disconnect(0,2) || walk(0)",
        "n=3 init=[(1, 0), (2, 0)] | disconnect(1,0) || disconnect(2,0) || q_deg(0)",
        "n=3 init=[(0, 1), (1, 2), (2, 0)] | isolate(0) || q_deg(1); walk(1) || q_deg(2); q_conn(2,0)",
        // an edge between 0 and 1 exists at every instant but migrates between node 0's two lists while a
        // try_connect looks for it: the look-up is one critical section today, so try_connect must be refused
        // (the sixteen "[un]" scenarios run on the undirected flavour only: in the directed one the pairs
        // connect(0,1) || try_connect(0,1) and try_connect || disconnect are open findings of the reference tree)
        "[un] n=2 init=[(0, 1)] | connect(0,1); disconnect(0,1) || try_connect(0,1)",
        "[un] n=2 init=[(0, 1)] | connect(0,1); disconnect(0,1) || try_connect(1,0)",
        "[un] n=2 init=[(0, 1)] | connect(0,1); disconnect(1,0) || try_connect(0,1)",
        "[un] n=2 init=[(0, 1)] | connect(0,1); disconnect(1,0) || try_connect(1,0)",
        "[un] n=2 init=[(0, 1)] | connect(1,0); disconnect(0,1) || try_connect(0,1)",
        "[un] n=2 init=[(0, 1)] | connect(1,0); disconnect(0,1) || try_connect(1,0)",
        "[un] n=2 init=[(0, 1)] | connect(1,0); disconnect(1,0) || try_connect(0,1)",
        "[un] n=2 init=[(0, 1)] | connect(1,0); disconnect(1,0) || try_connect(1,0)",
        "[un] n=2 init=[(1, 0)] | connect(0,1); disconnect(0,1) || try_connect(0,1)",
        "[un] n=2 init=[(1, 0)] | connect(0,1); disconnect(0,1) || try_connect(1,0)",
        "[un] n=2 init=[(1, 0)] | connect(0,1); disconnect(1,0) || try_connect(0,1)",
        "[un] n=2 init=[(1, 0)] | connect(0,1); disconnect(1,0) || try_connect(1,0)",
        "[un] n=2 init=[(1, 0)] | connect(1,0); disconnect(0,1) || try_connect(0,1)",
        "[un] n=2 init=[(1, 0)] | connect(1,0); disconnect(0,1) || try_connect(1,0)",
        "[un] n=2 init=[(1, 0)] | connect(1,0); disconnect(1,0) || try_connect(0,1)",
        "[un] n=2 init=[(1, 0)] | connect(1,0); disconnect(1,0) || try_connect(1,0)",
    ]
}

/// Four-thread scenarios whose schedule space is far beyond exhaustive exploration: two traversals entering a
/// cycle from opposite ends while one writer per node queues in between (the shape a lock held across a
/// recursion or an iteration step needs in order to deadlock behind writer-preferring locks), and readers of
/// every kind against two writers.  Schedules are sampled at random (seeded); every call pair in them is clean
/// on the reference tree.
pub fn sampled_scenarios() -> Vec<&'static str> {
    vec![
        "n=2 init=[(0, 1), (1, 0)] | dfs(0) || dfs(1) || connect(0,0) || connect(1,1)",
        "n=2 init=[(0, 1), (1, 0)] | walk(0) || walk(1) || connect(0,0) || connect(1,1)",
        "n=2 init=[(0, 1), (1, 0)] | ord(0) || ord(1) || connect(0,0) || connect(1,1)",
        "n=2 init=[(0, 1), (1, 0)] | pfs(0) || pfs(1) || connect(0,0) || connect(1,1)",
        "n=2 init=[(0, 1), (1, 0), (0, 0), (1, 1)] | dfs(0) || ord(1) || disconnect(0,0) || disconnect(1,1)",
        "n=3 init=[(0, 1), (1, 2), (2, 0)] | dfs(0) || dfs(1) || connect(2,2) || connect(0,0)",
        "n=3 init=[(0, 1), (1, 2), (2, 0)] | ord(0) || pfs(1) || walk(2) || isolate(1)",
        "n=3 init=[(0, 1), (1, 2), (2, 0)] | q_deg(0); q_conn(0,1) || dfs(2) || connect(0,0) || connect(1,1)",
    ]
}

pub struct RunCfg {
    pub shapes: Vec<(Vec<usize>, usize)>, // (calls per thread, max init edges)
    pub budget: u64,
    pub shard: u64,
    pub nshards: u64,
    pub stride: u64,
    pub emit_known: bool,
    pub targeted: bool,
    pub targeted_budget: u64,
    pub sampled_budget: u64,
    pub seed: u64,
}

pub fn run<F: Flav>(pool: &Pool, rc: &RunCfg, rep: &mut Report)
where
    F::Node: Send + Sync,
{
    let mut ck = Checker {
        pool,
        budget: rc.budget,
        memo: HashMap::new(),
    };
    let mut idx = 0u64;
    for (shape, init_max) in &rc.shapes {
        let scs = enum_scenarios(3, *init_max, shape);
        rep.add(&format!("{}.scenarios_in_space.{:?}.init{}", F::NAME, shape, init_max), scs.len() as u64);
        for sc in scs {
            idx += 1;
            if (idx / rc.stride.max(1)) % rc.nshards != rc.shard || idx % rc.stride.max(1) != 0 {
                continue;
            }
            crate::core::watchdog::tick(|| format!("{} {}", F::NAME, sc.text()));
            let v = ck.verdict::<F>(&sc);
            rep.count("scenarios");
            rep.count(&format!("{}.scenarios", F::NAME));
            rep.add("evaluations", v.perm.schedules + v.wp.schedules);
            rep.add("schedules", v.perm.schedules + v.wp.schedules);
            rep.add("lock_steps_scheduled", v.perm.lock_steps + v.wp.lock_steps);
            rep.add("distinct_final_outcomes", (v.perm.distinct_outcomes.max(v.wp.distinct_outcomes)) as u64);
            rep.add("sequential_outcomes", v.perm.seq_outcomes as u64);
            if v.capped() {
                rep.count("scenarios_budget_capped");
            } else {
                rep.count("scenarios_fully_explored");
            }
            if v.perm.schedules > 1 {
                rep.distinct(fnv_str(&format!("{}|{}", F::NAME, sc.text())));
            }
            if let Some(m) = v.perm.inconsistent.as_ref().or(v.wp.inconsistent.as_ref()) {
                rep.inconclusive.push(format!("explorer lock table disagreed with the real lock in {}: {}", sc.text(), m));
                continue;
            }
            if rep.samples.len() < 3 && v.perm.schedules > 20 && !v.failing() {
                rep.sample(json!({"flavour":F::NAME,"scenario":sc.text(),"schedules_permissive":v.perm.schedules,"schedules_writer_preferring":v.wp.schedules,
                                  "distinct_outcomes":v.perm.distinct_outcomes,"sequential_outcomes":v.perm.seq_outcomes,"verdict":"every schedule terminates and is serialisable"}));
            }
            if !v.failing() {
                rep.count("scenarios_clean");
                continue;
            }
            rep.count("scenarios_failing");
            for k in v.kinds() {
                rep.count(&format!("failing.{}", k));
            }
            let simple = sc.threads.len() == 2 && sc.calls() == 2;
            let (msc, mv) = if simple { (sc.clone(), v.clone()) } else { ck.minimise::<F>(&sc, &v) };
            if msc != sc {
                rep.count("failing_scenarios_reduced_to_smaller");
            }
            let key = finding_key::<F>(&sc, &v, &msc);
            let what = describe::<F>(&msc, &mv);
            if rc.emit_known {
                rep.notes.push(serde_json::to_string(&json!({"property":"C17","status":"open","key":key,"what":what})).unwrap());
            }
            rep.violation(
                "C17",
                key,
                if msc != sc { format!("{} (found in the larger scenario {})", what, sc.text()) } else { what },
                json!({"kind":"conc","prop":"C17","flavour":F::NAME,"scenario":msc.text(),"found_in":sc.text(),
                       "schedule_permissive": mv.perm.deadlocks.first().map(|x| x.0.clone()).or(mv.perm.panics.first().map(|x| x.0.clone())).or(mv.perm.nonserial.first().map(|x| x.0.clone())),
                       "schedule_writer_preferring": mv.wp.deadlocks.first().map(|x| x.0.clone()).or(mv.wp.panics.first().map(|x| x.0.clone())).or(mv.wp.nonserial.first().map(|x| x.0.clone()))}),
            );
        }
    }
    rep.count("enumerations_completed");
    if rc.targeted {
        let list = targeted_scenarios();
        for (i, txt) in list.iter().enumerate() {
            if (i as u64) % rc.nshards != rc.shard % rc.nshards.max(1) {
                continue;
            }
            let txt = match txt.strip_prefix("[un] ") {
                Some(_) if F::DIRECTED => continue,
                Some(t) => t,
                None => txt,
            };
            let Some(sc) = Scenario::parse(txt) else {
                rep.inconclusive.push(format!("targeted scenario does not parse: {}", txt));
                continue;
            };
            crate::core::watchdog::tick(|| format!("{} targeted {}", F::NAME, txt));
            let saved = ck.budget;
            ck.budget = rc.targeted_budget;
            let v = ck.verdict::<F>(&sc);
            ck.budget = saved;
            rep.count("targeted_scenarios");
            rep.add("evaluations", v.perm.schedules + v.wp.schedules);
            rep.add("schedules", v.perm.schedules + v.wp.schedules);
            rep.add("lock_steps_scheduled", v.perm.lock_steps + v.wp.lock_steps);
            if v.capped() {
                rep.count("targeted_scenarios_budget_capped");
            }
            rep.distinct(fnv_str(&format!("{}|targeted|{}", F::NAME, txt)));
            if let Some(m) = v.perm.inconsistent.as_ref().or(v.wp.inconsistent.as_ref()) {
                rep.inconclusive.push(format!("explorer lock table disagreed with the real lock in {}: {}", txt, m));
                continue;
            }
            if v.failing() {
                let (msc, mv) = ck.minimise::<F>(&sc, &v);
                let key = finding_key::<F>(&sc, &v, &msc);
                rep.violation(
                    "C17",
                    key,
                    format!("{} (found in the targeted scenario {})", describe::<F>(&msc, &mv), txt),
                    json!({"kind":"conc","prop":"C17","flavour":F::NAME,"scenario":msc.text(),"found_in":txt}),
                );
            }
        }
    }
    if rc.targeted && rc.sampled_budget > 0 {
        let list = sampled_scenarios();
        for (i, txt) in list.iter().enumerate() {
            if (i as u64 + 5) % rc.nshards != rc.shard % rc.nshards.max(1) {
                continue;
            }
            let Some(sc) = Scenario::parse(txt) else {
                rep.inconclusive.push(format!("sampled scenario does not parse: {}", txt));
                continue;
            };
            crate::core::watchdog::tick(|| format!("{} sampled {}", F::NAME, txt));
            let seed = rc.seed.wrapping_mul(1_000_003).wrapping_add(i as u64);
            let v = Verdict {
                perm: explore_with::<F>(pool, &sc, Fairness::Permissive, rc.sampled_budget, Some(seed)),
                wp: explore_with::<F>(pool, &sc, Fairness::WriterPreferring, rc.sampled_budget, Some(seed ^ 0x5555)),
            };
            rep.count("sampled_scenarios");
            rep.add("evaluations", v.perm.schedules + v.wp.schedules);
            rep.add("schedules", v.perm.schedules + v.wp.schedules);
            rep.add("random_schedules", v.perm.schedules + v.wp.schedules);
            rep.add("lock_steps_scheduled", v.perm.lock_steps + v.wp.lock_steps);
            rep.add("sampled_distinct_final_outcomes", (v.perm.distinct_outcomes.max(v.wp.distinct_outcomes)) as u64);
            rep.distinct(fnv_str(&format!("{}|sampled|{}", F::NAME, txt)));
            if let Some(m) = v.perm.inconsistent.as_ref().or(v.wp.inconsistent.as_ref()) {
                rep.inconclusive.push(format!("explorer lock table disagreed with the real lock in {}: {}", txt, m));
                continue;
            }
            if v.failing() {
                let key = finding_key::<F>(&sc, &v, &sc);
                rep.violation(
                    "C17",
                    key,
                    format!("{} (randomly sampled schedules, seed {})", describe::<F>(&sc, &v), seed),
                    json!({"kind":"conc","prop":"C17","flavour":F::NAME,"scenario":sc.text(),"found_in":txt,"sampled":true,"seed":seed,"budget":rc.sampled_budget}),
                );
            }
        }
    }
}

pub fn replay<F: Flav>(pool: &Pool, v: &serde_json::Value) -> bool
where
    F::Node: Send + Sync,
{
    let Some(sc) = v["scenario"].as_str().and_then(Scenario::parse) else {
        println!("cannot parse scenario");
        return false;
    };
    if v["sampled"].as_bool() == Some(true) {
        // the same random schedules again (same seed, same number)
        let seed = v["seed"].as_u64().unwrap_or(1);
        let budget = v["budget"].as_u64().unwrap_or(3000);
        let vd = Verdict {
            perm: explore_with::<F>(pool, &sc, Fairness::Permissive, budget, Some(seed)),
            wp: explore_with::<F>(pool, &sc, Fairness::WriterPreferring, budget, Some(seed ^ 0x5555)),
        };
        println!("{}", describe::<F>(&sc, &vd));
        return vd.failing();
    }
    let mut ck = Checker {
        pool,
        budget: 200_000,
        memo: HashMap::new(),
    };
    let vd = ck.verdict::<F>(&sc);
    println!("{}", describe::<F>(&sc, &vd));
    println!("key: {}", finding_key::<F>(&sc, &vd, &sc));
    vd.failing()
}

/// Scenarios run with real threads on the real std lock (no controller, no
/// observer): under Miri (many seeds) they must neither deadlock nor race,
/// and their outcome must be serialisable.  All are clean on the reference
/// tree (no cross-thread pair of an open finding class).
pub fn free_scenarios() -> Vec<&'static str> {
    vec![
        "n=2 init=[(0, 1), (1, 0)] | disconnect(0,1) || disconnect(1,0)",
        "n=2 init=[] | connect(0,1) || connect(1,0)",
        "n=2 init=[(0, 1)] | connect(0,0) || q_deg(0); q_deg(1)",
        "n=2 init=[(0, 1)] | disconnect(0,1) || q_conn(0,1); q_deg(1)",
        "n=3 init=[(0, 1), (1, 2)] | connect(2,0) || walk(0)",
        "n=3 init=[(0, 1), (1, 2)] | isolate(1) || walk(0); q_deg(1)",
        "n=3 init=[(0, 1)] | connect(0,2) || connect(1,2) || q_deg(2)",
        "n=2 init=[(0, 0)] | disconnect(0,0) || q_deg(0); q_conn(0,0)",
        "n=3 init=[(0, 1), (2, 1)] | disconnect(0,1) || disconnect(2,1)",
        // readers iterating a list while another thread makes it grow (reallocation) or shrink
        "n=3 init=[(0, 1), (0, 2)] | connect(0,0); connect(0,1); connect(0,2); connect(0,0) || walk(0); q_conn(0,2); walk(0)",
        "n=3 init=[(0, 1), (0, 2), (0, 0)] | disconnect(0,1); disconnect(0,0) || walk(0); q_conn(0,2); walk(0)",
        "n=2 init=[(0, 1), (1, 0)] | walk(0) || walk(1) || connect(0,0)",
        // four threads on the real lock: two depth-first searches crossing a cycle from opposite ends, one writer per node
        "n=2 init=[(0, 1), (1, 0)] | dfs(0) || dfs(1) || connect(0,0) || connect(1,1)",
    ]
}

pub fn run_free<F: Flav>(sc: &Scenario, rep: &mut Report)
where
    F::Node: Send + Sync,
{
    let seq = sequential_outcomes::<F>(sc);
    let w = setup_world::<F>(sc);
    let mut results: Vec<Vec<CRes>> = vec![vec![]; sc.threads.len()];
    std::thread::scope(|s| {
        let mut hs = vec![];
        for (t, calls) in sc.threads.iter().enumerate() {
            let nodes: Vec<F::Node> = w.nodes.clone();
            hs.push(s.spawn(move || {
                let mut out = vec![];
                for (i, c) in calls.iter().enumerate() {
                    out.push(do_call::<F>(&nodes, *c, call_eid(t, i)));
                    std::thread::yield_now();
                }
                out
            }));
        }
        for (t, h) in hs.into_iter().enumerate() {
            results[t] = h.join().unwrap_or_default();
        }
    });
    rep.count("evaluations");
    rep.count("free_runs");
    let all: Vec<CRes> = results.iter().flatten().cloned().collect();
    let mut o = {
        let res: Vec<Vec<CRes>> = results
            .into_iter()
            .enumerate()
            .map(|(t, r)| r.into_iter().enumerate().filter(|(i, _)| sc.threads[t][*i].mutating()).map(|(_, x)| x).collect())
            .collect();
        match crate::core::observe::<F>(&w) {
            Ok(ob) => Outcome {
                lists: ob.n.iter().map(|x| (x.out.iter().map(|(k, e)| (*k, e.id)).collect(), x.inn.iter().map(|(k, e)| (*k, e.id)).collect())).collect(),
                results: res,
                unobservable: None,
                walk: crate::core::check_invariant::<F>(&ob).first().map(|m| m.chars().filter(|c| !c.is_ascii_digit()).take(80).collect::<String>()),
            },
            Err(p) => Outcome { lists: vec![], results: res, unobservable: Some(p), walk: None },
        }
    };
    let mut msgs = vec![];
    for r in &all {
        if let CRes::Panic(m) = r {
            msgs.push(format!("a call panicked: {}", m));
        }
    }
    if let Some(u) = o.unobservable.take() {
        msgs.push(format!("state unobservable (poisoned?): {}", u));
    } else if msgs.is_empty() && !seq.contains(&o) {
        msgs.push(format!("outcome {} is produced by no sequential order", o.text()));
    }
    if !msgs.is_empty() {
        rep.violation(
            "C17",
            format!("{} ## free ## {}", F::NAME, sc.text()),
            format!("[{}] real threads on `{}`: {}", F::NAME, sc.text(), msgs.join("; ")),
            json!({"kind":"conc","prop":"C17","flavour":F::NAME,"scenario":sc.text()}),
        );
    }
}
