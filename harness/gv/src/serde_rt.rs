//! C12: serialisation round trips (JSON and CBOR) on all four containers.
//! C13 lives in serde_fuzz.rs and shares `world_of_graph`.

use crate::core::*;
use crate::flav::*;
use crate::report::*;
use crate::search::random_graph;
use crate::types::*;
use serde_json::json;
use std::collections::HashSet;

/// Rebuilds a world (handles indexed by key 0..n) from a container; errors
/// if the keys are not exactly 0..n.
pub fn world_of_graph<F: Flav>(g: &F::Graph, reg: std::sync::Arc<Registry>) -> Result<World<F>, String> {
    let n = F::g_len(g);
    let mut nodes = vec![];
    let mut insts = vec![];
    for k in 0..n as K {
        match F::g_get(g, &k) {
            Some(h) => {
                insts.push(F::val(&h).inst);
                nodes.push(h);
            }
            None => return Err(format!("result has {} members but no key {}", n, k)),
        }
    }
    Ok(World {
        reg,
        nodes,
        insts,
        next_eid: 1_000_000,
    })
}

pub fn container_of<F: Flav>(w: &World<F>, order: &[usize]) -> F::Graph {
    let mut g = F::g_new();
    for i in order {
        F::g_insert(&mut g, w.nodes[*i].clone());
    }
    g
}

fn sorted(l: &EL) -> EL {
    let mut s = l.clone();
    s.sort();
    s
}

/// Compares the observation of a deserialised graph with the original's.
pub fn compare_graphs<F: Flav>(orig: &Obs, prios: &[i32], w2: &World<F>, what: &str) -> Vec<String> {
    let mut v = vec![];
    if w2.n() != orig.n.len() {
        v.push(format!("{}: {} nodes, original has {}", what, w2.n(), orig.n.len()));
        return v;
    }
    for k in 0..w2.n() {
        if F::val(&w2.nodes[k]).prio != prios[k] {
            v.push(format!("{}: node {} has value {}, original {}", what, k, F::val(&w2.nodes[k]).prio, prios[k]));
        }
    }
    let o2 = match observe::<F>(w2) {
        Ok(o) => o,
        Err(e) => {
            v.push(format!("{}: result unobservable: {}", what, e));
            return v;
        }
    };
    for k in 0..w2.n() {
        if F::DIRECTED {
            if o2.n[k].out != orig.n[k].out {
                v.push(format!(
                    "{}: outgoing edges of {} are {:?}, original {:?}",
                    what,
                    k,
                    o2.n[k].out.iter().map(|(p, e)| (*p, e.id)).collect::<Vec<_>>(),
                    orig.n[k].out.iter().map(|(p, e)| (*p, e.id)).collect::<Vec<_>>()
                ));
            }
            if sorted(&o2.n[k].inn) != sorted(&orig.n[k].inn) {
                v.push(format!("{}: incoming edges of {} differ from the original", what, k));
            }
        } else if sorted(&o2.n[k].out) != sorted(&orig.n[k].out) {
            v.push(format!(
                "{}: incident edges of {} are {:?}, original {:?}",
                what,
                k,
                sorted(&o2.n[k].out).iter().map(|(p, e)| (*p, e.id)).collect::<Vec<_>>(),
                sorted(&orig.n[k].out).iter().map(|(p, e)| (*p, e.id)).collect::<Vec<_>>()
            ));
        }
        if o2.n[k].out_degree != orig.n[k].out_degree || o2.n[k].in_degree != orig.n[k].in_degree {
            v.push(format!("{}: degree of {} changed", what, k));
        }
    }
    for m in check_invariant::<F>(&o2) {
        v.push(format!("{}: invariant broken in result: {}", what, m));
    }
    v
}

pub fn eval_roundtrip<F: Flav>(prios: &[i32], edges: &[(K, K)], instances: usize, rng: &mut Rng, rep: &mut Report) {
    let n = prios.len();
    let mut w = World::<F>::with_prios(prios);
    for (a, b) in edges {
        let e = w.fresh();
        F::connect(&w.nodes[*a as usize], &w.nodes[*b as usize], e);
    }
    let orig = match observe::<F>(&w) {
        Ok(o) => o,
        Err(e) => {
            rep.inconclusive.push(format!("graph unobservable: {}", e));
            return;
        }
    };
    rep.count("graphs");
    if edges.iter().any(|(a, b)| a == b) {
        rep.count("graphs_with_selfloop");
    }
    {
        let mut s = HashSet::new();
        if edges.iter().any(|e| !s.insert(*e)) {
            rep.count("graphs_with_parallel_edges");
        }
    }
    set_cur_reg(Some(w.reg.clone()));
    for inst in 0..instances {
        let mut order: Vec<usize> = (0..n).collect();
        if inst > 0 {
            rng.shuffle(&mut order);
        }
        let g = container_of::<F>(&w, &order);
        for fmt in ["json", "cbor"] {
            rep.count("evaluations");
            rep.count(&format!("{}.{}", F::NAME, fmt));
            rep.distinct(fnv_str(&format!("{}|{}|{:?}|{:?}|{}", F::NAME, fmt, prios, edges, inst)));
            let mut msgs: Vec<String> = vec![];
            let trip = |src: &F::Graph| -> Result<(F::Graph, String), String> {
                catch(|| -> Result<(F::Graph, String), String> {
                    if fmt == "json" {
                        let s = F::ser_json(src).map_err(|e| format!("serialise: {}", e))?;
                        let g2 = F::de_json(&s).map_err(|e| format!("deserialise own output: {}", e))?;
                        Ok((g2, s))
                    } else {
                        let b = F::ser_cbor(src).map_err(|e| format!("serialise: {}", e))?;
                        let g2 = F::de_cbor(&b).map_err(|e| format!("deserialise own output: {}", e))?;
                        Ok((g2, format!("{} bytes", b.len())))
                    }
                })
                .unwrap_or_else(|p| Err(format!("panicked: {}", p)))
            };
            let mut doc = String::new();
            match trip(&g) {
                Err(e) => msgs.push(format!("{} round trip failed: {}", fmt, e)),
                Ok((g2, d)) => {
                    doc = d;
                    match world_of_graph::<F>(&g2, w.reg.clone()) {
                        Err(e) => msgs.push(format!("{} round trip: {}", fmt, e)),
                        Ok(w2) => {
                            msgs.extend(compare_graphs::<F>(&orig, prios, &w2, &format!("{} round trip", fmt)));
                            // second trip must be a fixed point
                            match trip(&g2) {
                                Err(e) => msgs.push(format!("second {} round trip failed: {}", fmt, e)),
                                Ok((g3, _)) => match world_of_graph::<F>(&g3, w.reg.clone()) {
                                    Err(e) => msgs.push(format!("second {} round trip: {}", fmt, e)),
                                    Ok(w3) => msgs.extend(compare_graphs::<F>(&orig, prios, &w3, &format!("second {} round trip", fmt))),
                                },
                            }
                        }
                    }
                }
            }
            if !msgs.is_empty() {
                let cls: String = msgs[0].chars().filter(|c| !c.is_ascii_digit()).take(50).collect();
                rep.violation(
                    "C12",
                    format!("{}|{}|{}", F::NAME, fmt, cls),
                    format!("[{}] graph prios={:?} connects={:?}: {} (document: {})", F::NAME, prios, edges, msgs.join("; "), doc.chars().take(200).collect::<String>()),
                    json!({"kind":"serde_rt","prop":"C12","flavour":F::NAME,"prios":prios,"connects":edges,"format":fmt}),
                );
            } else if rep.samples.len() < 3 && edges.len() >= 2 && fmt == "json" {
                rep.sample(json!({"flavour":F::NAME,"connects":edges,"json_document":doc}));
            }
        }
    }
    set_cur_reg(None);
}

fn decode(n: usize, ne: usize, mut idx: u64) -> Vec<(K, K)> {
    let base = (n * n) as u64;
    let mut v = vec![];
    for _ in 0..ne {
        let p = idx % base;
        idx /= base;
        v.push(((p / n as u64) as K, (p % n as u64) as K));
    }
    v
}

pub fn run<F: Flav>(rep: &mut Report, max_n: usize, max_e: usize, random: u64, shard: u64, nshards: u64, rng: &mut Rng) {
    let mut gidx = 0u64;
    for n in 0..=max_n {
        for ne in 0..=max_e {
            if n == 0 && ne > 0 {
                continue;
            }
            let total = ((n * n) as u64).pow(ne as u32);
            for idx in 0..total {
                gidx += 1;
                if gidx % nshards != shard {
                    continue;
                }
                let edges = decode(n, ne, idx);
                let prios: Vec<i32> = (0..n).map(|i| ((idx + i as u64 * 3) % 5) as i32 - 2).collect();
                eval_roundtrip::<F>(&prios, &edges, 2, rng, rep);
                if rep.total_violations() > 300 {
                    return;
                }
            }
        }
    }
    rep.count("enumerations_completed");
    for _ in 0..random {
        let (n, edges, fam) = random_graph(rng);
        let prios: Vec<i32> = (0..n).map(|_| rng.below(2000) as i32 - 1000).collect();
        rep.count("random_graphs");
        rep.count(&format!("random_family.{}", fam));
        eval_roundtrip::<F>(&prios, &edges, 5, rng, rep);
    }
}

pub fn replay<F: Flav>(v: &serde_json::Value) -> bool {
    let prios: Vec<i32> = v["prios"].as_array().map(|a| a.iter().map(|x| x.as_i64().unwrap_or(0) as i32).collect()).unwrap_or_default();
    let edges: Vec<(K, K)> = v["connects"]
        .as_array()
        .map(|a| a.iter().map(|x| (x[0].as_u64().unwrap_or(0) as K, x[1].as_u64().unwrap_or(0) as K)).collect())
        .unwrap_or_default();
    let mut rep = Report::new();
    let mut rng = Rng::new(3);
    eval_roundtrip::<F>(&prios, &edges, 8, &mut rng, &mut rep);
    println!("replayed round trips of prios={:?} connects={:?} over 8 container instances: {} failing", prios, edges, rep.total_violations());
    for x in rep.violations.iter().take(4) {
        println!("DISCREPANCY: {}", x.what);
    }
    rep.total_violations() > 0
}

// ------------------------------------------------------------ other type instantiations

type TK = String;
type TN = Option<i8>;
type TE = (u8, String);
type Dump = Vec<(TK, TN, Vec<(TK, TE)>)>;

const KEYS: [&str; 8] = ["k0", "a b", "q\"uote", "", "-> x", "ünï", "[1,2]", "null"];

macro_rules! typed_roundtrip {
    ($fname:ident, $m:ident, $label:expr, $directed:expr) => {
        pub fn $fname(rng: &mut Rng, rep: &mut Report, cases: u64) {
            use gdsl::$m::{Edge, Graph, Node};
            let dump = |g: &Graph<TK, TN, TE>| -> Dump {
                let mut d: Dump = vec![];
                for (k, n) in g.iter() {
                    let mut l: Vec<(TK, TE)> = vec![];
                    for Edge(_, v, e) in n {
                        l.push((v.key().clone(), e));
                    }
                    if !$directed {
                        l.sort();
                    }
                    d.push((k.clone(), n.value().clone(), l));
                }
                d.sort_by(|a, b| a.0.cmp(&b.0));
                d
            };
            for ci in 0..cases {
                let nk = 1 + rng.below(KEYS.len());
                let mut g: Graph<TK, TN, TE> = Graph::new();
                let mut nodes: Vec<Node<TK, TN, TE>> = vec![];
                for i in 0..nk {
                    let val = if rng.chance(1, 3) { None } else { Some(rng.below(200) as i8) };
                    let n = Node::new(KEYS[i].to_string(), val);
                    g.insert(n.clone());
                    nodes.push(n);
                }
                let ne = rng.below(2 * nk + 2);
                for j in 0..ne {
                    let a = rng.below(nk);
                    let b = rng.below(nk);
                    nodes[a].connect(&nodes[b], (j as u8, format!("v{}\"\\{}", j, KEYS[b])));
                }
                let before = dump(&g);
                for fmt in ["json", "cbor"] {
                    rep.count("evaluations");
                    rep.count("typed_roundtrips");
                    rep.distinct(fnv_str(&format!("typed|{}|{}|{:?}", $label, fmt, before)));
                    let r = catch(|| -> Result<Dump, String> {
                        let g2: Graph<TK, TN, TE> = if fmt == "json" {
                            let s = serde_json::to_string(&g).map_err(|e| e.to_string())?;
                            serde_json::from_str(&s).map_err(|e| e.to_string())?
                        } else {
                            let b = serde_cbor::to_vec(&g).map_err(|e| e.to_string())?;
                            serde_cbor::from_slice(&b).map_err(|e| e.to_string())?
                        };
                        Ok(dump(&g2))
                    });
                    let msg = match r {
                        Err(p) => Some(format!("panicked: {}", p)),
                        Ok(Err(e)) => Some(format!("round trip failed: {}", e)),
                        Ok(Ok(after)) => {
                            if after != before {
                                Some(format!("graph changed: before {:?} after {:?}", before, after))
                            } else {
                                None
                            }
                        }
                    };
                    if let Some(m) = msg {
                        let cls: String = m.chars().filter(|c| !c.is_ascii_digit()).take(40).collect();
                        rep.violation(
                            "C12",
                            format!("{}|typed {}|{}", $label, fmt, cls),
                            format!("[{}] Graph<String, Option<i8>, (u8, String)> case {}: {}", $label, ci, m.chars().take(600).collect::<String>()),
                            json!({"kind":"serde_typed","prop":"C12","flavour":$label,"format":fmt}),
                        );
                    }
                }
            }
        }
    };
}

typed_roundtrip!(typed_digraph, digraph, "digraph", true);
typed_roundtrip!(typed_sync_digraph, sync_digraph, "sync_digraph", true);
typed_roundtrip!(typed_ungraph, ungraph, "ungraph", false);
typed_roundtrip!(typed_sync_ungraph, sync_ungraph, "sync_ungraph", false);

// Second instantiation: a key whose Display form is lossy (different keys print alike), nested node values,
// edge values with floats whose equality is not bit equality (NaN, -0.0) and extreme integers.
#[derive(Clone, Debug, PartialEq, Eq, Hash, PartialOrd, Ord)]
pub struct LossyKey(pub u32);
impl std::fmt::Display for LossyKey {
    fn fmt(&self, f: &mut std::fmt::Formatter) -> std::fmt::Result {
        write!(f, "k{}", self.0 / 10)
    }
}
impl serde::Serialize for LossyKey {
    fn serialize<S: serde::Serializer>(&self, s: S) -> Result<S::Ok, S::Error> {
        self.0.serialize(s)
    }
}
impl<'de> serde::Deserialize<'de> for LossyKey {
    fn deserialize<D: serde::Deserializer<'de>>(d: D) -> Result<Self, D::Error> {
        Ok(LossyKey(<u32 as serde::Deserialize>::deserialize(d)?))
    }
}
type T2N = Vec<Option<i64>>;
type T2E = (String, f64, i64);
type Dump2 = Vec<(u32, T2N, Vec<(u32, String, u64, i64)>)>;
const FLOATS: [f64; 7] = [0.0, -0.0, 1.5, f64::MAX, f64::MIN_POSITIVE, -1e300, 0.1];

macro_rules! typed_roundtrip2 {
    ($fname:ident, $m:ident, $label:expr, $directed:expr) => {
        pub fn $fname(rng: &mut Rng, rep: &mut Report, cases: u64) {
            use gdsl::$m::{Edge, Graph, Node};
            let dump = |g: &Graph<LossyKey, T2N, T2E>| -> Dump2 {
                let mut d: Dump2 = vec![];
                for (k, n) in g.iter() {
                    let mut l: Vec<(u32, String, u64, i64)> = vec![];
                    for Edge(_, v, e) in n {
                        l.push((v.key().0, e.0.clone(), e.1.to_bits(), e.2));
                    }
                    if !$directed {
                        l.sort();
                    }
                    d.push((k.0, n.value().clone(), l));
                }
                d.sort();
                d
            };
            for ci in 0..cases {
                let nk = 2 + rng.below(9);
                let mut g: Graph<LossyKey, T2N, T2E> = Graph::new();
                let mut nodes: Vec<Node<LossyKey, T2N, T2E>> = vec![];
                for i in 0..nk {
                    // keys 0..nk: several of them print as the same "k0"
                    let val: T2N = (0..rng.below(4)).map(|j| if j % 2 == 0 { Some(if rng.chance(1, 5) { i64::MIN } else { rng.below(1000) as i64 - 500 }) } else { None }).collect();
                    let n = Node::new(LossyKey(i as u32), val);
                    g.insert(n.clone());
                    nodes.push(n);
                }
                for j in 0..rng.below(3 * nk + 1) {
                    let a = rng.below(nk);
                    let b = rng.below(nk);
                    nodes[a].connect(&nodes[b], (format!("e{}", j), FLOATS[rng.below(FLOATS.len())], if rng.chance(1, 6) { i64::MAX } else { j as i64 }));
                }
                let before = dump(&g);
                for fmt in ["json", "cbor"] {
                    rep.count("evaluations");
                    rep.count("typed2_roundtrips");
                    rep.distinct(fnv_str(&format!("typed2|{}|{}|{:?}", $label, fmt, before)));
                    let r = catch(|| -> Result<Dump2, String> {
                        let g2: Graph<LossyKey, T2N, T2E> = if fmt == "json" {
                            let s = serde_json::to_string(&g).map_err(|e| e.to_string())?;
                            serde_json::from_str(&s).map_err(|e| e.to_string())?
                        } else {
                            let b = serde_cbor::to_vec(&g).map_err(|e| e.to_string())?;
                            serde_cbor::from_slice(&b).map_err(|e| e.to_string())?
                        };
                        Ok(dump(&g2))
                    });
                    let msg = match r {
                        Err(p) => Some(format!("panicked: {}", p)),
                        Ok(Err(e)) => Some(format!("round trip failed: {}", e)),
                        Ok(Ok(after)) => {
                            if after != before {
                                Some(format!("graph changed: before {:?} after {:?}", before, after))
                            } else {
                                None
                            }
                        }
                    };
                    if let Some(m) = msg {
                        let cls: String = m.chars().filter(|c| !c.is_ascii_digit()).take(40).collect();
                        rep.violation(
                            "C12",
                            format!("{}|typed2 {}|{}", $label, fmt, cls),
                            format!("[{}] Graph<LossyKey (keys whose Display collide), Vec<Option<i64>>, (String, f64, i64)> case {}: {}", $label, ci, m.chars().take(600).collect::<String>()),
                            json!({"kind":"serde_typed","prop":"C12","flavour":$label,"format":fmt}),
                        );
                    }
                }
            }
        }
    };
}
typed_roundtrip2!(typed2_digraph, digraph, "digraph", true);
typed_roundtrip2!(typed2_sync_digraph, sync_digraph, "sync_digraph", true);
typed_roundtrip2!(typed2_ungraph, ungraph, "ungraph", false);
typed_roundtrip2!(typed2_sync_ungraph, sync_ungraph, "sync_ungraph", false);

pub fn run_typed(rng: &mut Rng, rep: &mut Report, cases: u64) {
    typed2_digraph(rng, rep, cases);
    typed2_sync_digraph(rng, rep, cases);
    typed2_ungraph(rng, rep, cases);
    typed2_sync_ungraph(rng, rep, cases);
    typed_digraph(rng, rep, cases);
    typed_sync_digraph(rng, rep, cases);
    typed_ungraph(rng, rep, cases);
    typed_sync_ungraph(rng, rep, cases);
}
