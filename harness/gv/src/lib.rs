pub mod types;
pub mod flav;
pub mod core;
pub mod report;
pub mod seq;
pub mod model;
pub mod search;
pub mod scc;
