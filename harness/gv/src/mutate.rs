//! C20: graphs may be mutated from inside edge loops and traversal callbacks.
//! The harness keeps a model of the graph that it updates with every mutation
//! it performs, so "exists at the moment it is yielded" is a membership test
//! against a current model.

use crate::core::*;
use crate::flav::*;
use crate::report::*;
use crate::types::*;
use serde_json::json;
use std::cell::RefCell;

#[derive(Clone, Copy, Debug, PartialEq, Eq, Hash)]
pub enum Who {
    /// the iterated node / the source of the edge handed to the closure
    Src,
    /// the other endpoint of the current edge
    Peer,
    /// the root of the loop / traversal
    Root,
    /// a node that is neither Src nor Peer (when there is one)
    Third,
}

#[derive(Clone, Copy, Debug, PartialEq, Eq, Hash)]
pub enum SOp {
    Connect(Who, Who),
    TryConnect(Who, Who),
    Disconnect(Who, Who),
    Isolate(Who),
    Query(Who),
    /// nested search of kind 0..12 started at Who
    Nested(Who, u8),
    /// container insert / remove / get of the Who node
    Container(Who, u8),
}

#[derive(Clone, Copy, Debug, PartialEq, Eq, Hash)]
pub enum Loop {
    /// 0 iter_out/iter, 1 iter_in, 2 `for e in &node`
    Iter(u8),
    /// traversal with closure
    Trav { algo: Algo, meth: Meth, transpose: bool, target: bool, cycle: bool },
}

#[derive(Clone, Debug)]
pub struct Case {
    pub n: usize,
    pub edges: Vec<(K, K)>,
    pub root: K,
    pub lp: Loop,
    /// fire the script at this yield / closure call (0-based); fire_every = fire at every step from there
    pub step: usize,
    pub fire_every: bool,
    pub script: Vec<SOp>,
}

struct MModel {
    out: Vec<Vec<(K, Eid)>>,
    inn: Vec<Vec<(K, Eid)>>,
    directed: bool,
    created: usize,
}

impl MModel {
    fn has(&self, u: K, v: K, e: Eid) -> bool {
        (u as usize) < self.out.len() && self.out[u as usize].contains(&(v, e))
    }
    fn connect(&mut self, a: K, b: K, e: Eid) {
        self.created += 1;
        self.out[a as usize].push((b, e));
        if self.directed {
            self.inn[b as usize].push((a, e));
        } else {
            self.out[b as usize].push((a, e));
        }
    }
    fn rm(l: &mut Vec<(K, Eid)>, x: (K, Eid)) -> bool {
        match l.iter().position(|y| *y == x) {
            Some(i) => {
                l.remove(i);
                true
            }
            None => false,
        }
    }
    fn disconnect(&mut self, a: K, b: K, e: Eid) -> bool {
        let ok1 = Self::rm(&mut self.out[a as usize], (b, e));
        let ok2 = if self.directed { Self::rm(&mut self.inn[b as usize], (a, e)) } else { Self::rm(&mut self.out[b as usize], (a, e)) };
        ok1 && ok2
    }
    fn isolate(&mut self, a: K) {
        let n = self.out.len();
        for i in 0..n {
            if i as K != a {
                self.out[i].retain(|(p, _)| *p != a);
                self.inn[i].retain(|(p, _)| *p != a);
            }
        }
        self.out[a as usize].clear();
        self.inn[a as usize].clear();
    }
    fn connected(&self, a: K, b: K) -> bool {
        self.out[a as usize].iter().any(|(p, _)| *p == b)
    }
}

struct St<F: Flav> {
    w: World<F>,
    m: MModel,
    msgs: Vec<String>,
    yields: usize,
    since_last_add: usize,
    fired: usize,
    container: F::Graph,
    in_container: Vec<bool>,
    ylog: Vec<(K, K, u32)>,
}

fn resolve(who: Who, src: K, peer: K, root: K, n: usize) -> K {
    match who {
        Who::Src => src,
        Who::Peer => peer,
        Who::Root => root,
        Who::Third => (0..n as K).find(|k| *k != src && *k != peer).unwrap_or(src),
    }
}

fn nested_cfg(kind: u8, target: K) -> Cfg {
    let mut c = match kind % 12 {
        0 => Cfg::new(Algo::Bfs, Mode::Path),
        1 => Cfg::new(Algo::Dfs, Mode::Path),
        2 => Cfg::new(Algo::PfsMin, Mode::Path),
        3 => Cfg::new(Algo::PfsMax, Mode::Search),
        4 => Cfg::new(Algo::Bfs, Mode::Cycle),
        5 => Cfg::new(Algo::Dfs, Mode::Cycle),
        6 => Cfg::new(Algo::Pre, Mode::Nodes),
        7 => Cfg::new(Algo::Post, Mode::Edges),
        8 => Cfg::new(Algo::Bfs, Mode::Search),
        9 => Cfg::new(Algo::Dfs, Mode::Search),
        10 => Cfg::new(Algo::Post, Mode::Nodes),
        _ => Cfg::new(Algo::PfsMin, Mode::Cycle),
    };
    if matches!(c.mode, Mode::Path | Mode::Search) {
        c.target = Some(target);
    }
    c
}

/// Runs the script once, from inside the loop.  Panics propagate to the
/// enclosing catch (they are what the property forbids).
fn fire<F: Flav>(st: &RefCell<St<F>>, script: &[SOp], src: K, peer: K, root: K) {
    for op in script {
        let n = st.borrow().w.n();
        let r = |w: Who| resolve(w, src, peer, root, n);
        match *op {
            SOp::Connect(a, b) | SOp::TryConnect(a, b) => {
                let (a, b) = (r(a), r(b));
                let (ha, hb, e) = {
                    let mut s = st.borrow_mut();
                    let e = s.w.fresh();
                    (s.w.nodes[a as usize].clone(), s.w.nodes[b as usize].clone(), e)
                };
                if let SOp::Connect(..) = op {
                    F::connect(&ha, &hb, e);
                    let mut s = st.borrow_mut();
                    s.m.connect(a, b, e);
                    s.since_last_add = 0;
                } else {
                    let had = st.borrow().m.connected(a, b);
                    let res = F::try_connect(&ha, &hb, e);
                    let mut s = st.borrow_mut();
                    match res {
                        Ok(()) => {
                            if had {
                                s.msgs.push(format!("try_connect({},{}) inside the loop succeeded although an edge exists", a, b));
                            }
                            s.m.connect(a, b, e);
                            s.since_last_add = 0;
                        }
                        Err(_) => {
                            if !had {
                                s.msgs.push(format!("try_connect({},{}) inside the loop failed although no edge exists", a, b));
                            }
                        }
                    }
                }
            }
            SOp::Disconnect(a, b) => {
                let (a, b) = (r(a), r(b));
                let ha = st.borrow().w.nodes[a as usize].clone();
                let had = st.borrow().m.connected(a, b);
                let res = F::disconnect(&ha, &b);
                let mut s = st.borrow_mut();
                match res {
                    Ok(e) => {
                        if !s.m.disconnect(a, b, e) {
                            s.msgs.push(format!("disconnect({},{}) inside the loop returned e{} which the model does not have", a, b, e.id));
                        }
                    }
                    Err(_) => {
                        if had {
                            s.msgs.push(format!("disconnect({},{}) inside the loop failed although an edge exists", a, b));
                        }
                    }
                }
            }
            SOp::Isolate(a) => {
                let a = r(a);
                let ha = st.borrow().w.nodes[a as usize].clone();
                F::isolate(&ha);
                st.borrow_mut().m.isolate(a);
            }
            SOp::Query(a) => {
                let a = r(a);
                let ha = st.borrow().w.nodes[a as usize].clone();
                let d = F::out_degree(&ha);
                let _ = (F::in_degree(&ha), F::is_root(&ha), F::is_leaf(&ha), F::is_orphan(&ha), F::node_sizeof(&ha));
                let want = st.borrow().m.out[a as usize].len();
                if d != want {
                    st.borrow_mut().msgs.push(format!("degree of {} read inside the loop is {}, model has {}", a, d, want));
                }
                for k in 0..n as K {
                    let c = F::is_connected(&ha, &k);
                    let fo = F::find_out(&ha, &k).is_some();
                    let _ = F::find_in(&ha, &k);
                    let want = st.borrow().m.connected(a, k);
                    if c != want || fo != want {
                        st.borrow_mut().msgs.push(format!("is_connected/find({},{}) inside the loop = {}/{}, model says {}", a, k, c, fo, want));
                    }
                }
                // a nested full iteration
                let l = F::iter_out(&ha).len() + F::iter_in(&ha).len() + F::iter_into(&ha).len();
                let _ = l;
            }
            SOp::Nested(a, kind) => {
                let a = r(a);
                let ha = st.borrow().w.nodes[a as usize].clone();
                let cfg = nested_cfg(kind, peer);
                if cfg.valid(F::DIRECTED) {
                    let mut calls = 0usize;
                    let mut cb = |_e: &F::Edge| -> bool {
                        calls += 1;
                        true
                    };
                    let mut c2 = cfg;
                    c2.meth = if kind % 2 == 0 { Meth::ForEach } else { Meth::None };
                    let _ = match c2.meth {
                        Meth::None => F::search(&ha, &c2, None),
                        _ => F::search(&ha, &c2, Some(&mut cb)),
                    };
                }
            }
            SOp::Container(a, kind) => {
                let a = r(a);
                let mut s = st.borrow_mut();
                let h = s.w.nodes[a as usize].clone();
                match kind % 3 {
                    0 => {
                        let was = s.in_container[a as usize];
                        let r = F::g_insert(&mut s.container, h);
                        if r == was {
                            s.msgs.push(format!("container insert({}) inside the loop returned {} with member = {}", a, r, was));
                        }
                        s.in_container[a as usize] = true;
                    }
                    1 => {
                        let was = s.in_container[a as usize];
                        let r = F::g_remove(&mut s.container, &a);
                        if r.is_some() != was {
                            s.msgs.push(format!("container remove({}) inside the loop returned {:?} with member = {}", a, r.is_some(), was));
                        }
                        s.in_container[a as usize] = false;
                    }
                    _ => {
                        let was = s.in_container[a as usize];
                        let g = F::g_get(&s.container, &a);
                        if g.is_some() != was {
                            s.msgs.push(format!("container get({}) inside the loop = {} with member = {}", a, g.is_some(), was));
                        }
                        let _ = (F::g_len(&s.container), F::g_to_vec(&s.container).len());
                    }
                }
            }
        }
    }
    st.borrow_mut().fired += 1;
}

/// Called for every edge yielded by the loop / handed to the closure.
fn on_yield<F: Flav>(st: &RefCell<St<F>>, case: &Case, e: &F::Edge, owner_is_dst: bool, transposed: bool) -> bool {
    let (s, d, ev) = (F::key(F::e_src(e)), F::key(F::e_dst(e)), *F::e_val(e));
    let step = {
        let mut guard = st.borrow_mut();
        let x: &mut St<F> = &mut guard;
        // stored orientation
        let (su, sv) = if transposed { (d, s) } else { (s, d) };
        if !x.m.has(su, sv, ev) {
            let m = format!(
                "step {}: yielded edge ({},{},e{}) does not exist at the moment it is yielded (model: out({}) = {:?})",
                x.yields,
                s,
                d,
                ev.id,
                su,
                x.m.out.get(su as usize).map(|l| l.iter().map(|(p, e)| (*p, e.id)).collect::<Vec<_>>())
            );
            x.msgs.push(m);
        }
        for h in [F::e_src(e), F::e_dst(e)] {
            let k = F::key(h) as usize;
            if k >= x.w.insts.len() || F::val(h).inst != x.w.insts[k] {
                let m = format!("step {}: yielded edge carries a foreign node for key {}", x.yields, k);
                x.msgs.push(m);
            }
        }
        let y = x.yields;
        x.ylog.push((s, d, ev.id));
        x.yields += 1;
        x.since_last_add += 1;
        y
    };
    let (src, peer) = if owner_is_dst { (d, s) } else { (s, d) };
    if step == case.step || (case.fire_every && step > case.step && st.borrow().fired < 3) {
        fire::<F>(st, &case.script, src, peer, case.root);
    }
    // logical step bound: position-based iteration cannot legitimately exceed it
    let x = st.borrow();
    let bound = 2 * x.m.created + 2 * x.w.n() + 4;
    x.since_last_add <= bound && x.yields <= 50 * bound
}

fn script_is_pure(script: &[SOp]) -> bool {
    script.iter().all(|o| matches!(o, SOp::Query(_) | SOp::Nested(..) | SOp::Container(_, 2)))
}

pub fn run_case<F: Flav>(case: &Case, rep: &mut Report) -> Vec<String> {
    let (mut msgs, ylog, _) = run_case_full::<F>(case, rep);
    if msgs.is_empty() && script_is_pure(&case.script) {
        // queries, nested searches and container lookups from inside the loop do not change the graph:
        // the loop must yield exactly what it yields without them
        let mut plain = case.clone();
        plain.script = vec![];
        let mut scratch = Report::new();
        let (_, ybase, _) = run_case_full::<F>(&plain, &mut scratch);
        rep.count("pure_script_cases_compared_with_baseline");
        if ybase != ylog {
            msgs.push(format!(
                "a query / nested search / lookup from inside the loop changed what the loop yields: {:?} with the script, {:?} without",
                ylog.iter().take(12).collect::<Vec<_>>(),
                ybase.iter().take(12).collect::<Vec<_>>()
            ));
        }
    }
    msgs
}

/// As `run_case`, also returning the sequence of yielded edges and the final adjacency (for the
/// plain-vs-sync differential of C15).
pub fn run_case_full<F: Flav>(case: &Case, rep: &mut Report) -> (Vec<String>, Vec<(K, K, u32)>, String) {
    watchdog::beat();
    let mut w = World::<F>::new(case.n);
    let mut m = MModel {
        out: vec![vec![]; case.n],
        inn: vec![vec![]; case.n],
        directed: F::DIRECTED,
        created: 0,
    };
    for (a, b) in &case.edges {
        let e = w.fresh();
        F::connect(&w.nodes[*a as usize], &w.nodes[*b as usize], e);
        m.connect(*a, *b, e);
    }
    // handles obtained earlier must stay valid
    let early: Vec<(F::Node, K, u64)> = w.nodes.iter().map(|x| (x.clone(), F::key(x), F::val(x).inst)).collect();
    let early_edges: Vec<(F::Edge, (K, K, Eid))> = w.nodes.iter().flat_map(|x| F::iter_out(x)).map(|e| {
        let t = (F::key(F::e_src(&e)), F::key(F::e_dst(&e)), *F::e_val(&e));
        (e, t)
    }).collect();
    // a path obtained before the loop
    let early_path: Option<(PathH<F>, Vec<(K, K, Eid)>)> = (0..case.n as K).filter(|t| *t != case.root).find_map(|t| {
        let mut cfg = Cfg::new(Algo::Bfs, Mode::Path);
        cfg.target = Some(t);
        match F::search(&w.nodes[case.root as usize], &cfg, None) {
            Out::Path(Some(p)) => {
                let es = p.iter_edges().iter().map(|e| (F::key(F::e_src(e)), F::key(F::e_dst(e)), *F::e_val(e))).collect();
                Some((p, es))
            }
            _ => None,
        }
    });
    let root_h = w.nodes[case.root as usize].clone();
    let st = RefCell::new(St::<F> {
        w,
        m,
        msgs: vec![],
        yields: 0,
        since_last_add: 0,
        fired: 0,
        container: F::g_new(),
        in_container: vec![false; case.n],
        ylog: vec![],
    });
    let mut runaway = false;
    let res = catch(|| match case.lp {
        Loop::Iter(which) => {
            let owner_is_dst = F::DIRECTED && which == 1;
            F::iter_with(&root_h, which, &mut |e| {
                let go = on_yield::<F>(&st, case, e, owner_is_dst, false);
                if !go {
                    runaway = true;
                }
                go
            });
        }
        Loop::Trav { algo, meth, transpose, target, cycle } => {
            let mode = match algo {
                Algo::Pre | Algo::Post => Mode::Nodes,
                _ => {
                    if cycle {
                        Mode::Cycle
                    } else {
                        Mode::Path
                    }
                }
            };
            let mut cfg = Cfg::new(algo, mode);
            cfg.meth = meth;
            cfg.transpose = transpose;
            if target && mode == Mode::Path {
                cfg.target = Some(((case.root as usize + case.n - 1) % case.n) as K);
            }
            let mut cb = |e: &F::Edge| -> bool {
                if !on_yield::<F>(&st, case, e, false, transpose) {
                    panic!("harness: step bound exceeded");
                }
                true
            };
            let _ = F::search(&root_h, &cfg, Some(&mut cb));
        }
    });
    let mut s = st.into_inner();
    let mut msgs = std::mem::take(&mut s.msgs);
    match res {
        Err(p) if p.contains("harness: step bound exceeded") => msgs.push(format!("the traversal keeps calling the closure after the script stopped adding edges ({} calls)", s.yields)),
        Err(p) => msgs.push(format!("panicked inside the loop: {}", p)),
        Ok(()) => {}
    }
    if runaway {
        msgs.push(format!("the edge loop keeps yielding after the script stopped adding edges ({} yields)", s.yields));
    }
    rep.add("yields_observed", s.yields as u64);
    if s.fired > 0 {
        rep.count("cases_where_script_fired");
    }
    // handles taken before the loop are still what they were
    for (h, k, inst) in &early {
        if F::key(h) != *k || F::val(h).inst != *inst {
            msgs.push(format!("a handle of node {} obtained before the loop changed identity", k));
        }
    }
    for (e, t) in &early_edges {
        if (F::key(F::e_src(e)), F::key(F::e_dst(e)), *F::e_val(e)) != *t {
            msgs.push("an edge value obtained before the loop changed".into());
        }
    }
    if let Some((p, es)) = &early_path {
        match catch(|| p.iter_edges().iter().map(|e| (F::key(F::e_src(e)), F::key(F::e_dst(e)), *F::e_val(e))).collect::<Vec<_>>()) {
            Ok(now) => {
                if &now != es {
                    msgs.push("a path obtained before the loop reports different edges afterwards".into());
                }
            }
            Err(pn) => msgs.push(format!("a path obtained before the loop cannot be read afterwards: {}", pn)),
        }
    }
    // the state after the loop is the model (mutations had their normal effect), and is coherent
    if msgs.is_empty() {
        match observe::<F>(&s.w) {
            Err(p) => msgs.push(format!("state unobservable after the loop: {}", p)),
            Ok(o) => {
                for u in 0..case.n {
                    let mut a = o.n[u].out.clone();
                    let mut b = s.m.out[u].clone();
                    a.sort();
                    b.sort();
                    if a != b {
                        msgs.push(format!(
                            "after the loop node {} lists {:?}, the mutations performed amount to {:?}",
                            u,
                            a.iter().map(|(p, e)| (*p, e.id)).collect::<Vec<_>>(),
                            b.iter().map(|(p, e)| (*p, e.id)).collect::<Vec<_>>()
                        ));
                    }
                }
                for x in check_invariant::<F>(&o) {
                    msgs.push(format!("after the loop: {}", x));
                }
            }
        }
    }
    let fin = match observe::<F>(&s.w) {
        Ok(o) => o.brief(),
        Err(e) => format!("unobservable: {}", panic_class(&e).replace("sync_", "")),
    };
    (msgs, s.ylog, fin)
}

fn decode(n: usize, ne: usize, mut idx: u64) -> Vec<(K, K)> {
    let base = (n * n) as u64;
    let mut v = vec![];
    for _ in 0..ne {
        let p = idx % base;
        idx /= base;
        v.push(((p / n as u64) as K, (p % n as u64) as K));
    }
    v
}

pub fn all_loops(directed: bool) -> Vec<Loop> {
    let mut v = vec![Loop::Iter(0), Loop::Iter(2)];
    if directed {
        v.push(Loop::Iter(1));
    }
    for algo in [Algo::Bfs, Algo::Dfs, Algo::PfsMin, Algo::PfsMax, Algo::Pre, Algo::Post] {
        for meth in [Meth::ForEach, Meth::Filter] {
            for transpose in [false, true] {
                if transpose && !directed {
                    continue;
                }
                let order = matches!(algo, Algo::Pre | Algo::Post);
                v.push(Loop::Trav { algo, meth, transpose, target: false, cycle: false });
                if !order {
                    v.push(Loop::Trav { algo, meth, transpose, target: true, cycle: false });
                    if meth == Meth::Filter {
                        v.push(Loop::Trav { algo, meth, transpose, target: false, cycle: true });
                    }
                }
            }
        }
    }
    v
}

pub fn single_scripts() -> Vec<Vec<SOp>> {
    let whos = [Who::Src, Who::Peer, Who::Root, Who::Third];
    let mut v = vec![];
    for a in whos {
        for b in whos {
            v.push(vec![SOp::Connect(a, b)]);
            v.push(vec![SOp::TryConnect(a, b)]);
            v.push(vec![SOp::Disconnect(a, b)]);
        }
        v.push(vec![SOp::Isolate(a)]);
        v.push(vec![SOp::Query(a)]);
        for k in 0..12 {
            if a != Who::Root || k % 3 == 0 {
                v.push(vec![SOp::Nested(a, k)]);
            }
        }
    }
    for k in 0..3 {
        v.push(vec![SOp::Container(Who::Src, k)]);
        v.push(vec![SOp::Container(Who::Peer, k)]);
    }
    v
}

fn random_script(rng: &mut Rng) -> Vec<SOp> {
    let whos = [Who::Src, Who::Peer, Who::Root, Who::Third];
    let mut s = vec![];
    for _ in 0..(1 + rng.below(3)) {
        let a = *rng.pick(&whos);
        let b = *rng.pick(&whos);
        s.push(match rng.below(10) {
            0 | 1 => SOp::Connect(a, b),
            2 => SOp::TryConnect(a, b),
            3 | 4 => SOp::Disconnect(a, b),
            5 => SOp::Isolate(a),
            6 => SOp::Query(a),
            7 | 8 => SOp::Nested(a, rng.below(12) as u8),
            _ => SOp::Container(a, rng.below(3) as u8),
        });
    }
    s
}

pub fn random_case(rng: &mut Rng, directed: bool) -> Case {
    let loops = all_loops(directed);
    let n = 2 + rng.below(5);
    // up to 6n edges: nodes with 8 and more (parallel) edges occur
    let ne = if rng.chance(1, 2) { rng.below(2 * n + 2) } else { rng.below(6 * n + 1) };
    let edges: Vec<(K, K)> = (0..ne).map(|_| (rng.below(n) as K, rng.below(n) as K)).collect();
    Case {
        n,
        edges,
        root: rng.below(n) as K,
        lp: *rng.pick(&loops),
        step: if rng.chance(1, 2) { rng.below(5) } else { rng.below(14) },
        fire_every: rng.chance(1, 2),
        script: random_script(rng),
    }
}

fn report<F: Flav>(rep: &mut Report, c: &Case, msgs: &[String]) {
    let cls: String = msgs[0].chars().filter(|ch| !ch.is_ascii_digit()).take(60).collect();
    let loopname = match c.lp {
        Loop::Iter(0) => "iter_out/iter".to_string(),
        Loop::Iter(1) => "iter_in".to_string(),
        Loop::Iter(_) => "for e in &node".to_string(),
        Loop::Trav { algo, meth, transpose, target, cycle } => format!("{:?}{}{}{}/{:?}", algo, if transpose { ".T" } else { "" }, if target { ".target" } else { "" }, if cycle { ".cycle" } else { "" }, meth),
    };
    rep.violation(
        "C20",
        format!("{}|{}|{}", F::NAME, loopname, cls),
        format!("[{}] graph connects={:?} (n={}), loop {} from node {}, script {:?} fired at step {}{}: {}", F::NAME, c.edges, c.n, loopname, c.root, c.script, c.step, if c.fire_every { "+" } else { "" }, msgs.join("; ")),
        json!({"kind":"mutate","prop":"C20","flavour":F::NAME,"n":c.n,"connects":c.edges,"root":c.root,"loop":format!("{:?}", c.lp),"loop_index":all_loops(F::DIRECTED).iter().position(|l| *l == c.lp),
               "step":c.step,"fire_every":c.fire_every,"script":format!("{:?}", c.script),
               "script_index": single_scripts().iter().position(|s| *s == c.script)}),
    );
}

pub fn run<F: Flav>(rep: &mut Report, max_n: usize, max_e: usize, random: u64, shard: u64, nshards: u64, rng: &mut Rng, case_stride: u64) {
    let loops = all_loops(F::DIRECTED);
    let scripts = single_scripts();
    let mut idx = 0u64;
    let mut case_no = 0u64;
    for n in 2..=max_n {
        for ne in 0..=max_e {
            let total = ((n * n) as u64).pow(ne as u32);
            for gi in 0..total {
                let edges = decode(n, ne, gi);
                for lp in &loops {
                    idx += 1;
                    if idx % nshards != shard {
                        continue;
                    }
                    watchdog::tick(|| format!("{} mutate graph {:?} loop {:?}", F::NAME, edges, lp));
                    for root in 0..n as K {
                        for step in 0..(ne + 1).min(3) {
                            for (si, script) in scripts.iter().enumerate() {
                                case_no += 1;
                                if case_no % case_stride.max(1) != 0 {
                                    continue;
                                }
                                let c = Case {
                                    n,
                                    edges: edges.clone(),
                                    root,
                                    lp: *lp,
                                    step,
                                    fire_every: (si + step) % 4 == 3,
                                    script: script.clone(),
                                };
                                rep.count("evaluations");
                                rep.count("enumerated_cases");
                                let fired_before = rep.get("cases_where_script_fired");
                                let m = run_case::<F>(&c, rep);
                                if rep.get("cases_where_script_fired") > fired_before {
                                    rep.distinct(fnv_str(&format!("{}|{:?}|{:?}|{}|{}|{}", F::NAME, c.edges, c.lp, c.root, c.step, si)));
                                }
                                if !m.is_empty() {
                                    report::<F>(rep, &c, &m);
                                    if rep.total_violations() > 300 {
                                        return;
                                    }
                                }
                            }
                        }
                    }
                }
            }
        }
    }
    rep.count("enumerations_completed");
    for ri in 0..random {
        let c = random_case(rng, F::DIRECTED);
        if c.edges.len() >= 12 {
            rep.count("random_cases_ge12_edges");
        }
        rep.count("evaluations");
        rep.count("random_cases");
        rep.distinct(fnv_str(&format!("{}|{:?}|{:?}|{:?}|{}|{}", F::NAME, c.edges, c.lp, c.script, c.root, c.step)));
        if ri == 0 {
            rep.sample(json!({"flavour":F::NAME,"connects":c.edges,"loop":format!("{:?}", c.lp),"root":c.root,"script":format!("{:?}", c.script),"fired_at_step":c.step}));
        }
        let m = run_case::<F>(&c, rep);
        if !m.is_empty() {
            report::<F>(rep, &c, &m);
        }
    }
}

pub fn replay<F: Flav>(v: &serde_json::Value) -> bool {
    let loops = all_loops(F::DIRECTED);
    let scripts = single_scripts();
    let (Some(li), Some(si)) = (v["loop_index"].as_u64(), v["script_index"].as_u64()) else {
        println!("this case came from a random script; its text: loop={} script={}", v["loop"], v["script"]);
        return false;
    };
    let c = Case {
        n: v["n"].as_u64().unwrap_or(2) as usize,
        edges: v["connects"].as_array().map(|a| a.iter().map(|x| (x[0].as_u64().unwrap_or(0) as K, x[1].as_u64().unwrap_or(0) as K)).collect()).unwrap_or_default(),
        root: v["root"].as_u64().unwrap_or(0) as K,
        lp: loops[li as usize % loops.len()],
        step: v["step"].as_u64().unwrap_or(0) as usize,
        fire_every: v["fire_every"].as_bool().unwrap_or(false),
        script: scripts[si as usize % scripts.len()].clone(),
    };
    let mut rep = Report::new();
    let m = run_case::<F>(&c, &mut rep);
    for x in &m {
        println!("DISCREPANCY: {}", x);
    }
    !m.is_empty()
}
