//! C17: deterministic schedule explorer over lock points (engine a).
//!
//! Worker threads run a scenario's calls on the real sync node types.  The
//! lock observer parks a worker at every lock point; the controller grants
//! one worker at a time, keeps the exact lock table from acquire/release
//! events and decides enabledness itself, so every interleaving of lock
//! acquisitions of a small scenario is executed against the real code.

use crate::core::*;
use crate::flav::*;
use crate::types::*;
use std::cell::Cell;
use std::collections::HashMap;
use std::sync::atomic::{AtomicU64, Ordering as AO};
use std::sync::{Arc, Condvar, Mutex};

#[derive(Clone, Copy, Debug, PartialEq, Eq, Hash, PartialOrd, Ord)]
pub enum CCall {
    Connect(K, K),
    TryConnect(K, K),
    Disconnect(K, K),
    Isolate(K),
    /// all degree / root / leaf / orphan predicates
    QDeg(K),
    /// is_connected + find_*
    QConn(K, K),
    /// one full bfs with a collecting for_each
    Walk(K),
    /// one full dfs (path search for an absent target), forward and - directed flavours - transposed
    Deep(K),
    /// preorder and postorder node lists
    Ord(K),
    /// one full priority-first search (absent target), min and max
    Prio(K),
}

impl CCall {
    pub fn mutating(&self) -> bool {
        matches!(self, CCall::Connect(..) | CCall::TryConnect(..) | CCall::Disconnect(..) | CCall::Isolate(..))
    }
    pub fn kind(&self) -> &'static str {
        match self {
            CCall::Connect(..) => "connect",
            CCall::TryConnect(..) => "try_connect",
            CCall::Disconnect(..) => "disconnect",
            CCall::Isolate(..) => "isolate",
            CCall::QDeg(..) => "q_deg",
            CCall::QConn(..) => "q_conn",
            CCall::Walk(..) => "walk",
            CCall::Deep(..) => "dfs",
            CCall::Ord(..) => "ord",
            CCall::Prio(..) => "pfs",
        }
    }
    pub fn nodes(&self) -> Vec<K> {
        match *self {
            CCall::Connect(a, b) | CCall::TryConnect(a, b) | CCall::Disconnect(a, b) | CCall::QConn(a, b) => vec![a, b],
            CCall::Isolate(a) | CCall::QDeg(a) | CCall::Walk(a) | CCall::Deep(a) | CCall::Ord(a) | CCall::Prio(a) => vec![a],
        }
    }
    pub fn map(&self, f: &dyn Fn(K) -> K) -> CCall {
        match *self {
            CCall::Connect(a, b) => CCall::Connect(f(a), f(b)),
            CCall::TryConnect(a, b) => CCall::TryConnect(f(a), f(b)),
            CCall::Disconnect(a, b) => CCall::Disconnect(f(a), f(b)),
            CCall::Isolate(a) => CCall::Isolate(f(a)),
            CCall::QDeg(a) => CCall::QDeg(f(a)),
            CCall::QConn(a, b) => CCall::QConn(f(a), f(b)),
            CCall::Walk(a) => CCall::Walk(f(a)),
            CCall::Deep(a) => CCall::Deep(f(a)),
            CCall::Ord(a) => CCall::Ord(f(a)),
            CCall::Prio(a) => CCall::Prio(f(a)),
        }
    }
    pub fn short(&self) -> String {
        match *self {
            CCall::Connect(a, b) => format!("connect({},{})", a, b),
            CCall::TryConnect(a, b) => format!("try_connect({},{})", a, b),
            CCall::Disconnect(a, b) => format!("disconnect({},{})", a, b),
            CCall::Isolate(a) => format!("isolate({})", a),
            CCall::QDeg(a) => format!("q_deg({})", a),
            CCall::QConn(a, b) => format!("q_conn({},{})", a, b),
            CCall::Walk(a) => format!("walk({})", a),
            CCall::Deep(a) => format!("dfs({})", a),
            CCall::Ord(a) => format!("ord({})", a),
            CCall::Prio(a) => format!("pfs({})", a),
        }
    }
    pub fn parse(s: &str) -> Option<CCall> {
        let open = s.find('(')?;
        let name = &s[..open];
        let args: Vec<K> = s[open + 1..s.len() - 1].split(',').filter_map(|x| x.trim().parse().ok()).collect();
        let a = *args.get(0)?;
        let b = args.get(1).copied();
        Some(match name {
            "connect" => CCall::Connect(a, b?),
            "try_connect" => CCall::TryConnect(a, b?),
            "disconnect" => CCall::Disconnect(a, b?),
            "isolate" => CCall::Isolate(a),
            "q_deg" => CCall::QDeg(a),
            "q_conn" => CCall::QConn(a, b?),
            "walk" => CCall::Walk(a),
            "dfs" => CCall::Deep(a),
            "ord" => CCall::Ord(a),
            "pfs" => CCall::Prio(a),
            _ => return None,
        })
    }
}

#[derive(Clone, Debug, PartialEq, Eq, Hash, PartialOrd, Ord)]
pub struct Scenario {
    pub n: usize,
    pub init: Vec<(K, K)>,
    pub threads: Vec<Vec<CCall>>,
}

impl Scenario {
    pub fn text(&self) -> String {
        format!(
            "n={} init={:?} | {}",
            self.n,
            self.init,
            self.threads.iter().map(|t| t.iter().map(|c| c.short()).collect::<Vec<_>>().join("; ")).collect::<Vec<_>>().join(" || ")
        )
    }
    pub fn parse(s: &str) -> Option<Scenario> {
        let (head, tail) = s.split_once(" | ")?;
        let n: usize = head.split_whitespace().next()?.strip_prefix("n=")?.parse().ok()?;
        let init_txt = head.split_once("init=")?.1.trim();
        let mut init = vec![];
        let nums: Vec<K> = init_txt.split(|c: char| !c.is_ascii_digit()).filter(|x| !x.is_empty()).filter_map(|x| x.parse().ok()).collect();
        for p in nums.chunks(2) {
            if p.len() == 2 {
                init.push((p[0], p[1]));
            }
        }
        let threads = tail.split(" || ").map(|t| t.split("; ").filter_map(|c| CCall::parse(c.trim())).collect()).collect();
        Some(Scenario { n, init, threads })
    }
    pub fn calls(&self) -> usize {
        self.threads.iter().map(|t| t.len()).sum()
    }
    /// Lexicographically smallest form over node relabellings and thread
    /// permutations; unused nodes dropped.
    pub fn canonical(&self) -> Scenario {
        let mut used: Vec<K> = vec![];
        for (a, b) in &self.init {
            used.push(*a);
            used.push(*b);
        }
        for t in &self.threads {
            for c in t {
                used.extend(c.nodes());
            }
        }
        used.sort();
        used.dedup();
        let m = used.len();
        let mut best: Option<Scenario> = None;
        let mut perm: Vec<usize> = (0..m).collect();
        loop {
            let f = |k: K| -> K { perm[used.iter().position(|u| *u == k).unwrap()] as K };
            let mut th: Vec<Vec<CCall>> = self.threads.iter().map(|t| t.iter().map(|c| c.map(&f)).collect()).collect();
            th.sort();
            let cand = Scenario {
                n: m,
                init: self.init.iter().map(|(a, b)| (f(*a), f(*b))).collect(),
                threads: th,
            };
            if best.as_ref().map_or(true, |b| cand < *b) {
                best = Some(cand);
            }
            // next permutation
            let mut i = m;
            loop {
                if i < 2 {
                    return best.unwrap();
                }
                i -= 1;
                if perm[i - 1] < perm[i] {
                    break;
                }
                if i == 1 {
                    return best.unwrap();
                }
            }
            let mut j = m - 1;
            while perm[j] <= perm[i - 1] {
                j -= 1;
            }
            perm.swap(i - 1, j);
            perm[i..].reverse();
        }
    }
    /// One call removed (an emptied thread disappears; at least two threads
    /// must remain) or one init edge removed.
    pub fn sub_scenarios(&self) -> Vec<Scenario> {
        let mut v = vec![];
        for i in 0..self.init.len() {
            let mut s = self.clone();
            s.init.remove(i);
            v.push(s);
        }
        for t in 0..self.threads.len() {
            for c in 0..self.threads[t].len() {
                let mut s = self.clone();
                s.threads[t].remove(c);
                s.threads.retain(|x| !x.is_empty());
                if s.threads.len() >= 2 {
                    v.push(s);
                }
            }
        }
        v
    }
}

// ------------------------------------------------------------------ controller state

#[derive(Clone, Copy, PartialEq, Eq, Debug)]
pub enum Fairness {
    /// a reader is enabled whenever no writer holds the lock
    Permissive,
    /// a reader is also disabled while another worker is parked for `write`
    /// on a lock that is currently held (what the futex lock does)
    WriterPreferring,
}

#[derive(Default)]
struct LockSt {
    readers: Vec<usize>,
    writer: Option<usize>,
}

struct Ctl {
    controlled: bool,
    pending: Vec<Option<(usize, bool)>>,
    granted: Vec<bool>,
    done: Vec<bool>,
    busy: Vec<bool>,
    locks: HashMap<usize, LockSt>,
    abort: bool,
    inconsistent: Option<String>,
}

pub struct Shared {
    ctl: Mutex<Ctl>,
    cv: Condvar,
    pub ev_before: AtomicU64,
    pub ev_acquired: AtomicU64,
    pub ev_released: AtomicU64,
}

thread_local! {
    static WORKER: Cell<Option<usize>> = Cell::new(None);
}

fn lk<'a>(s: &'a Shared) -> std::sync::MutexGuard<'a, Ctl> {
    s.ctl.lock().unwrap_or_else(|e| e.into_inner())
}

pub struct ExplObserver(pub Arc<Shared>);

impl gdsl::verif_hook::LockObserver for ExplObserver {
    fn before(&self, lock: usize, write: bool) {
        let Some(w) = WORKER.with(|c| c.get()) else { return };
        let s = &self.0;
        s.ev_before.fetch_add(1, AO::Relaxed);
        let mut g = lk(s);
        if !g.controlled {
            return;
        }
        g.pending[w] = Some((lock, write));
        g.busy[w] = false;
        s.cv.notify_all();
        while !g.granted[w] && !g.abort {
            g = s.cv.wait(g).unwrap_or_else(|e| e.into_inner());
        }
        if g.abort && !g.granted[w] {
            g.pending[w] = None;
            drop(g);
            panic!("explorer-abort");
        }
        g.granted[w] = false;
        g.pending[w] = None;
    }
    fn would_block(&self, lock: usize, write: bool) {
        match WORKER.with(|c| c.get()) {
            Some(w) => {
                let s = &self.0;
                let mut g = lk(s);
                if g.controlled {
                    g.inconsistent = Some(format!("worker {} was granted lock {:x} (write={}) but the real lock would block", w, lock, write));
                    g.abort = true;
                    s.cv.notify_all();
                    drop(g);
                    panic!("explorer-abort (inconsistent lock table)");
                }
            }
            None => panic!(
                "SELF-DEADLOCK: {} acquisition of a node lock while the same thread holds a conflicting guard",
                if write { "write" } else { "read" }
            ),
        }
    }
    fn acquired(&self, lock: usize, write: bool) {
        let Some(w) = WORKER.with(|c| c.get()) else { return };
        let s = &self.0;
        s.ev_acquired.fetch_add(1, AO::Relaxed);
        let mut g = lk(s);
        if !g.controlled {
            return;
        }
        let l = g.locks.entry(lock).or_default();
        if write {
            l.writer = Some(w);
        } else {
            l.readers.push(w);
        }
    }
    fn released(&self, lock: usize, write: bool) {
        let Some(w) = WORKER.with(|c| c.get()) else { return };
        let s = &self.0;
        s.ev_released.fetch_add(1, AO::Relaxed);
        let mut g = lk(s);
        if !g.controlled {
            return;
        }
        if let Some(l) = g.locks.get_mut(&lock) {
            if write {
                if l.writer == Some(w) {
                    l.writer = None;
                }
            } else if let Some(p) = l.readers.iter().position(|x| *x == w) {
                l.readers.remove(p);
            }
        }
    }
}

// ------------------------------------------------------------------ worker pool

type Job = Box<dyn FnOnce() + Send>;

pub struct Pool {
    pub shared: Arc<Shared>,
    senders: Vec<std::sync::mpsc::Sender<Job>>,
}

impl Pool {
    pub fn new(nworkers: usize) -> Pool {
        let shared = Arc::new(Shared {
            ctl: Mutex::new(Ctl {
                controlled: false,
                pending: vec![None; nworkers],
                granted: vec![false; nworkers],
                done: vec![true; nworkers],
                busy: vec![false; nworkers],
                locks: HashMap::new(),
                abort: false,
                inconsistent: None,
            }),
            cv: Condvar::new(),
            ev_before: AtomicU64::new(0),
            ev_acquired: AtomicU64::new(0),
            ev_released: AtomicU64::new(0),
        });
        gdsl::verif_hook::install(Arc::new(ExplObserver(shared.clone())));
        let mut senders = vec![];
        for w in 0..nworkers {
            let (tx, rx) = std::sync::mpsc::channel::<Job>();
            senders.push(tx);
            let sh = shared.clone();
            std::thread::Builder::new()
                .name(format!("worker{}", w))
                .spawn(move || {
                    WORKER.with(|c| c.set(Some(w)));
                    while let Ok(job) = rx.recv() {
                        job();
                        let mut g = lk(&sh);
                        g.done[w] = true;
                        g.busy[w] = false;
                        sh.cv.notify_all();
                    }
                })
                .expect("harness: cannot spawn worker");
        }
        Pool { shared, senders }
    }
}

// ------------------------------------------------------------------ executing one schedule

#[derive(Clone, Debug, PartialEq, Eq, Hash, PartialOrd, Ord)]
pub enum CRes {
    Unit,
    Ok,
    OkE(u32),
    ErrNotFound,
    ErrExists,
    Panic(String),
    Query,
}

/// (per node ordered out list, per node ordered in list) as (peer, edge id), and per-thread results of mutating calls
#[derive(Clone, Debug, PartialEq, Eq, Hash, PartialOrd, Ord)]
pub struct Outcome {
    pub lists: Vec<(Vec<(K, u32)>, Vec<(K, u32)>)>,
    pub results: Vec<Vec<CRes>>,
    pub unobservable: Option<String>,
    /// first discrepancy of the C01/C02 walkers at quiescence (derived views vs lists), if any
    pub walk: Option<String>,
}

impl Outcome {
    pub fn text(&self) -> String {
        format!(
            "lists={:?} results={:?}{}{}",
            self.lists,
            self.results,
            self.unobservable.as_ref().map(|u| format!(" UNOBSERVABLE({})", u)).unwrap_or_default(),
            self.walk.as_ref().map(|u| format!(" WALKERS({})", u)).unwrap_or_default()
        )
    }
}

pub fn call_eid(thread: usize, idx: usize) -> Eid {
    Eid {
        id: (100 + 10 * thread + idx) as u32,
        val: 0,
    }
}

pub fn do_call<F: Flav>(nodes: &[F::Node], c: CCall, e: Eid) -> CRes {
    let r = catch(|| match c {
        CCall::Connect(a, b) => {
            F::connect(&nodes[a as usize], &nodes[b as usize], e);
            CRes::Unit
        }
        CCall::TryConnect(a, b) => match F::try_connect(&nodes[a as usize], &nodes[b as usize], e) {
            Ok(()) => CRes::Ok,
            Err(_) => CRes::ErrExists,
        },
        CCall::Disconnect(a, b) => match F::disconnect(&nodes[a as usize], &b) {
            Ok(e) => CRes::OkE(e.id),
            Err(_) => CRes::ErrNotFound,
        },
        CCall::Isolate(a) => {
            F::isolate(&nodes[a as usize]);
            CRes::Unit
        }
        CCall::QDeg(a) => {
            let n = &nodes[a as usize];
            let _ = (F::out_degree(n), F::in_degree(n), F::is_root(n), F::is_leaf(n), F::is_orphan(n));
            CRes::Query
        }
        CCall::QConn(a, b) => {
            let n = &nodes[a as usize];
            let _ = (F::is_connected(n, &b), F::find_out(n, &b).is_some(), F::find_in(n, &b).is_some());
            CRes::Query
        }
        CCall::Walk(a) => {
            let mut cnt = 0usize;
            let mut cb = |_e: &F::Edge| -> bool {
                cnt += 1;
                cnt < 10_000
            };
            let mut cfg = Cfg::new(Algo::Bfs, Mode::Path);
            cfg.meth = Meth::ForEach;
            let _ = F::search(&nodes[a as usize], &cfg, Some(&mut cb));
            CRes::Query
        }
        CCall::Deep(a) => {
            for tr in [false, true] {
                if tr && !F::DIRECTED {
                    continue;
                }
                let mut cfg = Cfg::new(Algo::Dfs, Mode::Path);
                cfg.target = Some(K::MAX);
                cfg.transpose = tr;
                let _ = F::search(&nodes[a as usize], &cfg, None);
            }
            CRes::Query
        }
        CCall::Ord(a) => {
            let _ = F::search(&nodes[a as usize], &Cfg::new(Algo::Pre, Mode::Nodes), None);
            let _ = F::search(&nodes[a as usize], &Cfg::new(Algo::Post, Mode::Nodes), None);
            CRes::Query
        }
        CCall::Prio(a) => {
            for algo in [Algo::PfsMin, Algo::PfsMax] {
                let mut cfg = Cfg::new(algo, Mode::Path);
                cfg.target = Some(K::MAX);
                let _ = F::search(&nodes[a as usize], &cfg, None);
            }
            CRes::Query
        }
    });
    match r {
        Ok(x) => x,
        Err(p) => CRes::Panic(panic_class(&p)),
    }
}

fn outcome_of<F: Flav>(w: &World<F>, results: Vec<Vec<CRes>>, sc: &Scenario) -> Outcome {
    // only mutating calls' results are part of the outcome
    let results: Vec<Vec<CRes>> = results
        .into_iter()
        .enumerate()
        .map(|(t, r)| r.into_iter().enumerate().filter(|(i, _)| sc.threads[t][*i].mutating()).map(|(_, x)| x).collect())
        .collect();
    match observe::<F>(w) {
        Ok(o) => {
            // the C01/C02 walkers at quiescence are part of the outcome: a derived view (degree, predicate,
            // lookup) that disagrees with the lists is an anomaly unless a sequential order produces it too
            let walk = check_invariant::<F>(&o);
            Outcome {
                lists: o.n.iter().map(|x| (x.out.iter().map(|(k, e)| (*k, e.id)).collect(), x.inn.iter().map(|(k, e)| (*k, e.id)).collect())).collect(),
                results,
                unobservable: None,
                walk: walk.first().map(|m| m.chars().filter(|c| !c.is_ascii_digit()).take(80).collect::<String>()),
            }
        }
        Err(p) => Outcome {
            lists: vec![],
            results,
            unobservable: Some(panic_class(&p)),
            walk: None,
        },
    }
}

pub fn setup_world<F: Flav>(sc: &Scenario) -> World<F> {
    let w = World::<F>::new(sc.n);
    for (i, (a, b)) in sc.init.iter().enumerate() {
        F::connect(&w.nodes[*a as usize], &w.nodes[*b as usize], Eid { id: i as u32 + 1, val: 0 });
    }
    w
}

/// Outcomes of all sequential orders that respect each thread's own order.
pub fn sequential_outcomes<F: Flav>(sc: &Scenario) -> Vec<Outcome> {
    fn merges(pos: &mut Vec<usize>, lens: &[usize], cur: &mut Vec<usize>, out: &mut Vec<Vec<usize>>) {
        if cur.len() == lens.iter().sum::<usize>() {
            out.push(cur.clone());
            return;
        }
        for t in 0..lens.len() {
            if pos[t] < lens[t] {
                pos[t] += 1;
                cur.push(t);
                merges(pos, lens, cur, out);
                cur.pop();
                pos[t] -= 1;
            }
        }
    }
    let lens: Vec<usize> = sc.threads.iter().map(|t| t.len()).collect();
    let mut orders = vec![];
    merges(&mut vec![0; lens.len()], &lens, &mut vec![], &mut orders);
    let mut outs = vec![];
    for o in orders {
        let w = setup_world::<F>(sc);
        let mut pos = vec![0usize; lens.len()];
        let mut results: Vec<Vec<CRes>> = vec![vec![]; lens.len()];
        for t in o {
            let i = pos[t];
            pos[t] += 1;
            results[t].push(do_call::<F>(&w.nodes, sc.threads[t][i], call_eid(t, i)));
        }
        let oc = outcome_of::<F>(&w, results, sc);
        if !outs.contains(&oc) {
            outs.push(oc);
        }
    }
    outs
}

#[derive(Clone, Debug)]
pub enum RunEnd {
    Completed(Outcome),
    Deadlock(String),
    Inconsistent(String),
}

pub struct RunResult {
    pub trace: Vec<(usize, usize)>,
    pub end: RunEnd,
    pub steps: usize,
}

/// Executes the scenario once, following `prefix` and then always the first
/// enabled worker.
pub fn execute<F: Flav>(pool: &Pool, sc: &Scenario, mode: Fairness, prefix: &[usize]) -> RunResult
where
    F::Node: Send + Sync,
{
    crate::core::watchdog::beat();
    let sh = &pool.shared;
    let nt = sc.threads.len();
    let w = setup_world::<F>(sc);
    let results: Arc<Mutex<Vec<Vec<CRes>>>> = Arc::new(Mutex::new(vec![vec![]; nt]));
    {
        let mut g = lk(sh);
        g.controlled = true;
        g.abort = false;
        g.inconsistent = None;
        g.locks.clear();
        for t in 0..g.pending.len() {
            g.pending[t] = None;
            g.granted[t] = false;
            g.done[t] = t >= nt;
            g.busy[t] = t < nt;
        }
    }
    for t in 0..nt {
        let nodes: Vec<F::Node> = w.nodes.clone();
        let calls = sc.threads[t].clone();
        let res = results.clone();
        let job: Job = Box::new(move || {
            let mut out = vec![];
            for (i, c) in calls.iter().enumerate() {
                let r = do_call::<F>(&nodes, *c, call_eid(t, i));
                let aborted = matches!(&r, CRes::Panic(m) if m.starts_with("explorer-abort"));
                out.push(r);
                if aborted {
                    break;
                }
            }
            drop(nodes);
            res.lock().unwrap_or_else(|e| e.into_inner())[t] = out;
        });
        pool.senders[t].send(job).expect("harness: worker gone");
    }
    let mut trace: Vec<(usize, usize)> = vec![];
    let mut steps = 0usize;
    let end;
    let mut g = lk(sh);
    loop {
        // wait until no worker is running
        while (0..nt).any(|t| g.busy[t] && !g.done[t]) {
            g = sh.cv.wait(g).unwrap_or_else(|e| e.into_inner());
        }
        if let Some(m) = g.inconsistent.clone() {
            end = Some(RunEnd::Inconsistent(m));
            break;
        }
        if (0..nt).all(|t| g.done[t]) {
            end = None;
            break;
        }
        // enabled workers
        let mut enabled = vec![];
        for t in 0..nt {
            if g.done[t] {
                continue;
            }
            if let Some((lock, write)) = g.pending[t] {
                let (held_w, nreaders) = g.locks.get(&lock).map_or((None, 0), |l| (l.writer, l.readers.len()));
                let ok = if write {
                    held_w.is_none() && nreaders == 0
                } else {
                    let writer_waiting = mode == Fairness::WriterPreferring
                        && (held_w.is_some() || nreaders > 0)
                        && (0..nt).any(|o| o != t && !g.done[o] && g.pending[o] == Some((lock, true)));
                    held_w.is_none() && !writer_waiting
                };
                if ok {
                    enabled.push(t);
                }
            }
        }
        if enabled.is_empty() {
            let table: Vec<String> = (0..nt)
                .filter(|t| !g.done[*t])
                .map(|t| {
                    let (lock, write) = g.pending[t].unwrap_or((0, false));
                    let l = g.locks.get(&lock);
                    format!(
                        "thread {} waits for {} on a lock held by readers {:?} writer {:?}",
                        t,
                        if write { "write" } else { "read" },
                        l.map(|x| x.readers.clone()).unwrap_or_default(),
                        l.and_then(|x| x.writer)
                    )
                })
                .collect();
            end = Some(RunEnd::Deadlock(table.join("; ")));
            break;
        }
        let choice = if trace.len() < prefix.len() { prefix[trace.len()] % enabled.len() } else { 0 };
        trace.push((choice, enabled.len()));
        let t = enabled[choice];
        g.granted[t] = true;
        g.busy[t] = true;
        steps += 1;
        sh.cv.notify_all();
    }
    if end.is_some() {
        // unwind the parked workers
        g.abort = true;
        sh.cv.notify_all();
        while (0..nt).any(|t| !g.done[t]) {
            g = sh.cv.wait(g).unwrap_or_else(|e| e.into_inner());
        }
    }
    g.controlled = false;
    g.abort = false;
    drop(g);
    let end = match end {
        Some(e) => e,
        None => {
            let res = results.lock().unwrap_or_else(|e| e.into_inner()).clone();
            RunEnd::Completed(outcome_of::<F>(&w, res, sc))
        }
    };
    RunResult { trace, end, steps }
}

// ------------------------------------------------------------------ exploring all schedules of a scenario

#[derive(Clone, Debug, Default)]
pub struct ScnResult {
    pub schedules: u64,
    pub capped: bool,
    pub lock_steps: u64,
    pub distinct_outcomes: usize,
    /// anomaly kind -> (count, example schedule, description)
    pub deadlocks: Vec<(Vec<usize>, String)>,
    pub panics: Vec<(Vec<usize>, String)>,
    pub nonserial: Vec<(Vec<usize>, Outcome)>,
    pub n_deadlock: u64,
    pub n_panic: u64,
    pub n_nonserial: u64,
    pub inconsistent: Option<String>,
    pub seq_outcomes: usize,
    /// signature of the set of bad outcomes (stable for fully explored scenarios)
    pub signature: u64,
}

impl ScnResult {
    pub fn kinds(&self) -> Vec<&'static str> {
        let mut v = vec![];
        if self.n_deadlock > 0 {
            v.push("deadlock");
        }
        if self.n_panic > 0 {
            v.push("panic");
        }
        if self.n_nonserial > 0 {
            v.push("nonserialisable");
        }
        v
    }
}

pub fn explore<F: Flav>(pool: &Pool, sc: &Scenario, mode: Fairness, budget: u64) -> ScnResult
where
    F::Node: Send + Sync,
{
    explore_with::<F>(pool, sc, mode, budget, None)
}

/// `random = None`: every schedule in depth-first order (up to `budget`).  `random = Some(seed)`: `budget`
/// schedules drawn at random (a uniformly chosen enabled worker at every lock point), for scenarios whose
/// schedule space is far beyond any budget - a sample, always reported as budget-capped.
pub fn explore_with<F: Flav>(pool: &Pool, sc: &Scenario, mode: Fairness, budget: u64, random: Option<u64>) -> ScnResult
where
    F::Node: Send + Sync,
{
    let mut rng = random.map(Rng::new);
    let seq = sequential_outcomes::<F>(sc);
    let mut r = ScnResult {
        seq_outcomes: seq.len(),
        ..Default::default()
    };
    let mut outcomes: Vec<Outcome> = vec![];
    let mut bad_sigs: Vec<String> = vec![];
    let mut prefix: Vec<usize> = vec![];
    loop {
        if let Some(r) = rng.as_mut() {
            prefix = (0..400).map(|_| r.below(12) as usize).collect();
        }
        let run = execute::<F>(pool, sc, mode, &prefix);
        r.schedules += 1;
        r.lock_steps += run.steps as u64;
        let sched: Vec<usize> = run.trace.iter().map(|x| x.0).collect();
        match &run.end {
            RunEnd::Inconsistent(m) => {
                r.inconsistent = Some(m.clone());
                break;
            }
            RunEnd::Deadlock(d) => {
                r.n_deadlock += 1;
                if r.deadlocks.len() < 2 {
                    r.deadlocks.push((sched.clone(), d.clone()));
                }
                let s = "deadlock".to_string();
                if !bad_sigs.contains(&s) {
                    bad_sigs.push(s);
                }
            }
            RunEnd::Completed(o) => {
                if !outcomes.contains(o) {
                    outcomes.push(o.clone());
                }
                let panicked: Vec<&String> = o
                    .results
                    .iter()
                    .flatten()
                    .filter_map(|x| if let CRes::Panic(m) = x { Some(m) } else { None })
                    .chain(o.unobservable.iter())
                    .collect();
                if !panicked.is_empty() {
                    r.n_panic += 1;
                    if r.panics.len() < 2 {
                        r.panics.push((sched.clone(), panicked.iter().map(|s| s.as_str()).collect::<Vec<_>>().join(" / ")));
                    }
                    let s = format!("panic:{}", o.text());
                    if !bad_sigs.contains(&s) {
                        bad_sigs.push(s);
                    }
                } else if !seq.contains(o) {
                    r.n_nonserial += 1;
                    if r.nonserial.len() < 2 {
                        r.nonserial.push((sched.clone(), o.clone()));
                    }
                    let s = format!("nonserial:{}", o.text());
                    if !bad_sigs.contains(&s) {
                        bad_sigs.push(s);
                    }
                }
            }
        }
        if rng.is_some() {
            if r.schedules >= budget {
                r.capped = true;
                break;
            }
            continue;
        }
        // next schedule in depth-first order
        let mut tr = run.trace;
        loop {
            match tr.pop() {
                None => break,
                Some((c, n)) => {
                    if c + 1 < n {
                        tr.push((c + 1, n));
                        break;
                    }
                }
            }
        }
        if tr.is_empty() {
            break;
        }
        prefix = tr.iter().map(|x| x.0).collect();
        if r.schedules >= budget {
            r.capped = true;
            break;
        }
    }
    r.distinct_outcomes = outcomes.len();
    bad_sigs.sort();
    r.signature = fnv_str(&bad_sigs.join("|"));
    r
}
