//! Shard report: counters, distinct-case hashes, samples, violations.
//! The driver (`/verif/check`) merges the reports of all shards, looks the
//! violations up in known_findings.json and writes the evidence file.

use serde_json::{json, Value};
use std::collections::{BTreeMap, HashSet};

pub struct Violation {
    pub property: String,
    /// canonical key used for the known-findings lookup
    pub key: String,
    pub what: String,
    pub replay: Value,
}

pub struct Report {
    pub counters: BTreeMap<String, u64>,
    pub distinct: HashSet<u64>,
    pub samples: Vec<Value>,
    pub violations: Vec<Violation>,
    pub violation_keys: BTreeMap<String, u64>,
    pub inconclusive: Vec<String>,
    pub notes: Vec<String>,
    pub max_samples: usize,
    pub max_violations_per_key: u64,
}

impl Report {
    pub fn new() -> Report {
        Report {
            counters: BTreeMap::new(),
            distinct: HashSet::new(),
            samples: vec![],
            violations: vec![],
            violation_keys: BTreeMap::new(),
            inconclusive: vec![],
            notes: vec![],
            max_samples: 6,
            max_violations_per_key: 2,
        }
    }
    pub fn count(&mut self, name: &str) {
        *self.counters.entry(name.to_string()).or_insert(0) += 1;
    }
    pub fn add(&mut self, name: &str, n: u64) {
        *self.counters.entry(name.to_string()).or_insert(0) += n;
    }
    pub fn get(&self, name: &str) -> u64 {
        self.counters.get(name).copied().unwrap_or(0)
    }
    pub fn touch(&mut self, name: &str) {
        self.counters.entry(name.to_string()).or_insert(0);
    }
    /// Registers a distinct non-trivial case by canonical hash; returns true
    /// if it is new.
    pub fn distinct(&mut self, h: u64) -> bool {
        self.distinct.insert(h)
    }
    pub fn sample(&mut self, v: Value) {
        if self.samples.len() < self.max_samples {
            self.samples.push(v);
        }
    }
    pub fn violation(&mut self, property: &str, key: String, what: String, replay: Value) {
        let c = self.violation_keys.entry(format!("{}|{}", property, key)).or_insert(0);
        *c += 1;
        if *c <= self.max_violations_per_key && self.violations.len() < 20000 {
            self.violations.push(Violation {
                property: property.to_string(),
                key,
                what,
                replay,
            });
        }
    }
    pub fn total_violations(&self) -> u64 {
        self.violation_keys.values().sum()
    }
    pub fn to_json(&self) -> Value {
        let mut hashes: Vec<u64> = self.distinct.iter().copied().collect();
        hashes.sort();
        let emit_hashes = hashes.len() <= 300_000;
        json!({
            "counters": self.counters,
            "distinct_count": hashes.len(),
            "distinct_hashes": if emit_hashes { json!(hashes.iter().map(|h| format!("{:x}", h)).collect::<Vec<_>>()) } else { Value::Null },
            "samples": self.samples,
            "violations": self.violations.iter().map(|v| json!({
                "property": v.property, "key": v.key, "what": v.what, "replay": v.replay
            })).collect::<Vec<_>>(),
            "violation_keys": self.violation_keys,
            "violations_total": self.total_violations(),
            "inconclusive": self.inconclusive,
            "notes": self.notes,
        })
    }
    pub fn write(&self, path: &str) {
        let s = serde_json::to_string(&self.to_json()).unwrap();
        std::fs::write(path, s).expect("harness: cannot write report");
    }
}

/// Simple `--key value` argument access.
pub struct Args(pub Vec<String>);

impl Args {
    pub fn get(&self, k: &str) -> Option<&str> {
        let key = format!("--{}", k);
        self.0
            .iter()
            .position(|a| *a == key)
            .and_then(|i| self.0.get(i + 1))
            .map(|s| s.as_str())
    }
    pub fn str(&self, k: &str, d: &str) -> String {
        self.get(k).unwrap_or(d).to_string()
    }
    pub fn num(&self, k: &str, d: u64) -> u64 {
        self.get(k).and_then(|s| s.parse().ok()).unwrap_or(d)
    }
    pub fn flag(&self, k: &str) -> bool {
        let key = format!("--{}", k);
        self.0.iter().any(|a| *a == key)
    }
}
