//! Reference model: a plain multigraph built from an observation, with
//! straightforward implementations of reachability, BFS distances, cycles,
//! Tarjan SCC and exact "is this a DFS pre/post-order" decision procedures.
//! For undirected flavours the model is the digraph of *half-edges*: `out[u]`
//! is `iter(u)`, so an undirected edge appears once in each endpoint's list
//! (a self-loop twice in its own).

use crate::core::Obs;
use crate::types::*;
use std::collections::{HashMap, HashSet, VecDeque};

pub type PEdge = (K, K, Eid);

#[derive(Clone, Debug)]
pub struct Model {
    pub n: usize,
    pub out: Vec<Vec<(K, Eid)>>,
    pub inn: Vec<Vec<(K, Eid)>>,
    pub directed: bool,
}

/// Edge acceptance predicate over (source, target, value).
pub type Accept<'a> = &'a dyn Fn(K, K, Eid) -> bool;

impl Model {
    pub fn from_obs(o: &Obs, directed: bool) -> Model {
        Model {
            n: o.n.len(),
            out: o.n.iter().map(|x| x.out.clone()).collect(),
            inn: o.n.iter().map(|x| x.inn.clone()).collect(),
            directed,
        }
    }

    /// The edge-reversed graph (directed only): out and in lists swapped.
    pub fn reversed(&self) -> Model {
        Model {
            n: self.n,
            out: self.inn.clone(),
            inn: self.out.clone(),
            directed: self.directed,
        }
    }

    pub fn has_edge(&self, a: K, b: K, e: Eid) -> bool {
        (a as usize) < self.n && self.out[a as usize].contains(&(b, e))
    }

    pub fn edge_count(&self) -> usize {
        self.out.iter().map(|l| l.len()).sum()
    }

    /// BFS distances from root over accepted edges.
    pub fn dist(&self, root: K, acc: Accept) -> Vec<Option<usize>> {
        let mut d = vec![None; self.n];
        let mut q = VecDeque::new();
        d[root as usize] = Some(0);
        q.push_back(root);
        while let Some(u) = q.pop_front() {
            for (v, e) in &self.out[u as usize] {
                if acc(u, *v, *e) && d[*v as usize].is_none() {
                    d[*v as usize] = Some(d[u as usize].unwrap() + 1);
                    q.push_back(*v);
                }
            }
        }
        d
    }

    pub fn reach(&self, root: K, acc: Accept) -> Vec<bool> {
        self.dist(root, acc).iter().map(|x| x.is_some()).collect()
    }

    /// Length of a shortest closed walk root -> ... -> root with >= 1 accepted
    /// edges (= shortest cycle through root), if any.
    pub fn shortest_cycle(&self, root: K, acc: Accept) -> Option<usize> {
        let d = self.dist(root, acc);
        let mut best: Option<usize> = None;
        for x in 0..self.n {
            if let Some(dx) = d[x] {
                for (v, e) in &self.out[x] {
                    if *v == root && acc(x as K, *v, *e) {
                        best = Some(best.map_or(dx + 1, |b| b.min(dx + 1)));
                    }
                }
            }
        }
        best
    }

    /// Tarjan: component id per node (whole graph, all edges).
    pub fn scc(&self) -> Vec<usize> {
        struct T<'a> {
            m: &'a Model,
            idx: Vec<Option<usize>>,
            low: Vec<usize>,
            on: Vec<bool>,
            st: Vec<usize>,
            next: usize,
            comp: Vec<usize>,
            nc: usize,
        }
        fn go(t: &mut T, v: usize) {
            t.idx[v] = Some(t.next);
            t.low[v] = t.next;
            t.next += 1;
            t.st.push(v);
            t.on[v] = true;
            for (w, _) in t.m.out[v].clone() {
                let w = w as usize;
                if t.idx[w].is_none() {
                    go(t, w);
                    t.low[v] = t.low[v].min(t.low[w]);
                } else if t.on[w] {
                    t.low[v] = t.low[v].min(t.idx[w].unwrap());
                }
            }
            if t.low[v] == t.idx[v].unwrap() {
                loop {
                    let w = t.st.pop().unwrap();
                    t.on[w] = false;
                    t.comp[w] = t.nc;
                    if w == v {
                        break;
                    }
                }
                t.nc += 1;
            }
        }
        let mut t = T {
            m: self,
            idx: vec![None; self.n],
            low: vec![0; self.n],
            on: vec![false; self.n],
            st: vec![],
            next: 0,
            comp: vec![0; self.n],
            nc: 0,
        };
        for v in 0..self.n {
            if t.idx[v].is_none() {
                go(&mut t, v);
            }
        }
        t.comp
    }

    fn acc_out(&self, u: K, acc: Accept) -> Vec<K> {
        self.out[u as usize].iter().filter(|(v, e)| acc(u, *v, *e)).map(|(v, _)| *v).collect()
    }

    /// Exact: is `seq` the discovery order of some DFS from `root` over the
    /// accepted edges?  (Stack simulation; linear.)
    pub fn is_dfs_preorder(&self, root: K, seq: &[K], acc: Accept) -> Result<(), String> {
        let reach = self.reach(root, acc);
        let want: usize = reach.iter().filter(|x| **x).count();
        if seq.len() != want {
            return Err(format!("{} nodes returned, {} reachable", seq.len(), want));
        }
        if seq.is_empty() || seq[0] != root {
            return Err("root is not first".into());
        }
        let mut seen = vec![false; self.n];
        seen[root as usize] = true;
        let mut stack = vec![root];
        for &v in &seq[1..] {
            if (v as usize) >= self.n || seen[v as usize] {
                return Err(format!("node {} repeated or unknown", v));
            }
            loop {
                let top = match stack.last() {
                    Some(t) => *t,
                    None => return Err(format!("node {} discovered after the traversal was exhausted", v)),
                };
                let unv: Vec<K> = self.acc_out(top, acc).into_iter().filter(|w| !seen[*w as usize]).collect();
                if unv.is_empty() {
                    stack.pop();
                    continue;
                }
                if !unv.contains(&v) {
                    return Err(format!(
                        "node {} discovered while {} (deepest open node) still has undiscovered successors {:?} not including it",
                        v, top, unv
                    ));
                }
                break;
            }
            seen[v as usize] = true;
            stack.push(v);
        }
        Ok(())
    }

    /// Exact (backtracking with a step budget): is `seq` the finishing order
    /// of some DFS from `root` over the accepted edges?  `None` = budget
    /// exhausted.
    pub fn is_dfs_postorder(&self, root: K, seq: &[K], acc: Accept, budget: &mut u64) -> Option<Result<(), String>> {
        let reach = self.reach(root, acc);
        let want: usize = reach.iter().filter(|x| **x).count();
        if seq.len() != want {
            return Some(Err(format!("{} nodes returned, {} reachable", seq.len(), want)));
        }
        if seq.last() != Some(&root) {
            return Some(Err("root is not last".into()));
        }
        let mut uniq = HashSet::new();
        for v in seq {
            if (*v as usize) >= self.n || !reach[*v as usize] || !uniq.insert(*v) {
                return Some(Err(format!("node {} repeated / unreachable / unknown", v)));
            }
        }
        let adj: Vec<Vec<K>> = (0..self.n).map(|u| self.acc_out(u as K, acc)).collect();
        // dfs(v, pos): v already discovered; emits v's subtree starting at seq[pos]; returns end pos
        fn reach_undisc(adj: &[Vec<K>], disc: &[bool], c: K) -> Vec<K> {
            let mut r = vec![c];
            let mut seen: HashSet<K> = HashSet::new();
            seen.insert(c);
            let mut i = 0;
            while i < r.len() {
                let u = r[i];
                i += 1;
                for w in &adj[u as usize] {
                    if !disc[*w as usize] && seen.insert(*w) {
                        r.push(*w);
                    }
                }
            }
            r
        }
        fn go(adj: &[Vec<K>], seq: &[K], disc: &mut Vec<bool>, v: K, pos: usize, budget: &mut u64) -> Option<Option<usize>> {
            if *budget == 0 {
                return None;
            }
            *budget -= 1;
            let undisc: Vec<K> = {
                let mut u: Vec<K> = adj[v as usize].iter().copied().filter(|w| !disc[*w as usize]).collect();
                u.sort();
                u.dedup();
                u
            };
            if undisc.is_empty() {
                return Some(if pos < seq.len() && seq[pos] == v { Some(pos + 1) } else { None });
            }
            for c in undisc {
                let r = reach_undisc(adj, disc, c);
                let end = pos + r.len();
                if end > seq.len() || seq[end - 1] != c {
                    continue;
                }
                let block: HashSet<K> = seq[pos..end].iter().copied().collect();
                if block.len() != r.len() || !r.iter().all(|x| block.contains(x)) {
                    continue;
                }
                // try this child
                let saved = disc.clone();
                disc[c as usize] = true;
                match go(adj, seq, disc, c, pos, budget) {
                    None => return None,
                    Some(Some(e2)) if e2 == end => match go(adj, seq, disc, v, end, budget) {
                        None => return None,
                        Some(Some(fin)) => return Some(Some(fin)),
                        Some(None) => {}
                    },
                    _ => {}
                }
                *disc = saved;
            }
            Some(None)
        }
        let mut disc = vec![false; self.n];
        disc[root as usize] = true;
        match go(&adj, seq, &mut disc, root, 0, budget) {
            None => None,
            Some(Some(e)) if e == seq.len() => Some(Ok(())),
            Some(_) => Some(Err("no depth-first traversal finishes the nodes in this order".into())),
        }
    }

    /// Necessary condition of the statement: for every accepted edge u->v
    /// among the returned nodes, v precedes u unless u is reachable from v.
    pub fn postorder_necessary(&self, seq: &[K], acc: Accept) -> Result<(), String> {
        let pos: HashMap<K, usize> = seq.iter().enumerate().map(|(i, k)| (*k, i)).collect();
        for &u in seq {
            for (v, e) in &self.out[u as usize] {
                if !acc(u, *v, *e) || u == *v {
                    continue;
                }
                if let (Some(pu), Some(pv)) = (pos.get(&u), pos.get(v)) {
                    if pv > pu && !self.reach(*v, acc)[u as usize] {
                        return Err(format!("edge {}->{}: {} finishes before {} although {} cannot reach {}", u, v, u, v, v, u));
                    }
                }
            }
        }
        Ok(())
    }
}
