//! C13: hostile documents.  Structural mutations of valid documents
//! (enumerated at every position), truncation at every byte, seeded random
//! byte/token mutations and hand-written synthetic documents; JSON and CBOR;
//! all four containers.

use crate::core::*;
use crate::flav::*;
use crate::report::*;
use crate::types::*;
use serde_json::{json, Value};
use std::collections::HashMap;

/// Invariants of an arbitrary-keyed graph through the public API only.
pub fn check_graph_invariants<F: Flav>(g: &F::Graph) -> Vec<String> {
    let mut v = vec![];
    let members = F::g_iter(g);
    let mut inst: HashMap<K, u64> = HashMap::new();
    for (k, n) in &members {
        if F::key(n) != *k {
            v.push(format!("member stored under key {} has key {}", k, F::key(n)));
        }
        inst.insert(*k, F::val(n).inst);
    }
    let mut out: HashMap<K, Vec<(K, Eid)>> = HashMap::new();
    let mut inn: HashMap<K, Vec<(K, Eid)>> = HashMap::new();
    for (k, n) in &members {
        let o = F::iter_out(n);
        let mut ol = vec![];
        for e in &o {
            let peer = F::e_dst(e);
            if F::key(F::e_src(e)) != *k {
                v.push(format!("node {} yields an edge with source {}", k, F::key(F::e_src(e))));
            }
            match inst.get(&F::key(peer)) {
                Some(i) if *i == F::val(peer).inst => {}
                _ => v.push(format!("node {} has an edge to {} which is not a member", k, F::key(peer))),
            }
            ol.push((F::key(peer), *F::e_val(e)));
        }
        if F::out_degree(n) != ol.len() {
            v.push(format!("node {}: degree {} but {} edges iterated", k, F::out_degree(n), ol.len()));
        }
        out.insert(*k, ol);
        if F::DIRECTED {
            let i = F::iter_in(n);
            let mut il = vec![];
            for e in &i {
                il.push((F::key(F::e_src(e)), *F::e_val(e)));
            }
            if F::in_degree(n) != il.len() {
                v.push(format!("node {}: in_degree {} but {} edges iterated", k, F::in_degree(n), il.len()));
            }
            inn.insert(*k, il);
        }
    }
    for (u, _) in &members {
        for (w, _) in &members {
            let a: Vec<Eid> = out[u].iter().filter(|(p, _)| p == w).map(|(_, e)| *e).collect();
            if F::DIRECTED {
                let b: Vec<Eid> = inn[w].iter().filter(|(p, _)| p == u).map(|(_, e)| *e).collect();
                if a != b {
                    v.push(format!("edges {}->{}: source lists {} target lists {}", u, w, a.len(), b.len()));
                }
            } else if u != w {
                let mut a = a;
                let mut b: Vec<Eid> = out[w].iter().filter(|(p, _)| p == u).map(|(_, e)| *e).collect();
                a.sort();
                b.sort();
                if a != b {
                    v.push(format!("{} lists {} edges to {}, {} lists {} back", u, a.len(), w, w, b.len()));
                }
            } else if a.len() % 2 != 0 {
                v.push(format!("self-loops of {} listed an odd number of times", u));
            }
        }
    }
    v
}

struct Decl {
    nodes: Vec<(u64, i64)>,
    edges: Vec<(u64, u64, i64, i64)>,
    /// edge entries that name something that is not a declared key
    undeclared_refs: usize,
}

fn as_u(v: &Value) -> Option<u64> {
    v.as_u64()
}

/// Lenient reading of a (well-formed) document: what it declares.  Understands the array form
/// `[nodes, edges, (more edge lists...)]` and a map form `{"nodes": .., "edges": ..}` (also with keys 0 / 1),
/// so that an implementation accepting such shapes is still judged on content.
fn declared(doc: &Value) -> Option<Decl> {
    let mut d = Decl {
        nodes: vec![],
        edges: vec![],
        undeclared_refs: 0,
    };
    let mut node_lists: Vec<&Value> = vec![];
    let mut edge_lists: Vec<&Value> = vec![];
    match doc {
        Value::Array(top) => {
            if let Some(n) = top.get(0) {
                node_lists.push(n);
            }
            for e in top.iter().skip(1) {
                edge_lists.push(e);
            }
        }
        Value::Object(o) => {
            let mut any = false;
            for (k, v) in o {
                match k.as_str() {
                    "nodes" | "0" => {
                        node_lists.push(v);
                        any = true;
                    }
                    "edges" | "1" => {
                        edge_lists.push(v);
                        any = true;
                    }
                    _ => {}
                }
            }
            if !any {
                return None;
            }
        }
        _ => return None,
    }
    for ns in node_lists {
        if let Some(ns) = ns.as_array() {
            for n in ns {
                if let Some(a) = n.as_array() {
                    if let (Some(k), Some(p)) = (a.get(0).and_then(as_u), a.get(1).and_then(|x| x.as_i64())) {
                        d.nodes.push((k, p));
                    }
                }
            }
        }
    }
    for es in edge_lists {
        if let Some(es) = es.as_array() {
            for e in es {
                if let Some(a) = e.as_array() {
                    let u = a.get(0).and_then(as_u);
                    let w = a.get(1).and_then(as_u);
                    let (id, val) = match a.get(2).and_then(|x| x.as_array()) {
                        Some(t) => (t.get(0).and_then(|x| x.as_i64()).unwrap_or(-1), t.get(1).and_then(|x| x.as_i64()).unwrap_or(0)),
                        None => (-1, 0),
                    };
                    if let (Some(u), Some(w)) = (u, w) {
                        d.edges.push((u, w, id, val));
                    }
                }
            }
        }
    }
    for (u, w, _, _) in &d.edges {
        for k in [u, w] {
            if !d.nodes.iter().any(|(nk, _)| nk == k) {
                d.undeclared_refs += 1;
            }
        }
    }
    Some(d)
}

fn cbor_to_json(v: &serde_cbor::Value) -> Value {
    use serde_cbor::Value as C;
    match v {
        C::Null => Value::Null,
        C::Bool(b) => json!(b),
        C::Integer(i) => {
            if *i >= 0 {
                json!(*i as u64)
            } else {
                json!(*i as i64)
            }
        }
        C::Float(f) => json!(f),
        C::Bytes(b) => json!(format!("bytes{}", b.len())),
        C::Text(s) => json!(s),
        C::Array(a) => Value::Array(a.iter().map(cbor_to_json).collect()),
        C::Map(m) => {
            let mut o = serde_json::Map::new();
            for (k, v) in m {
                let ks = match k {
                    C::Text(s) => s.clone(),
                    C::Integer(i) => i.to_string(),
                    other => format!("{:?}", other),
                };
                o.insert(ks, cbor_to_json(v));
            }
            Value::Object(o)
        }
        C::Tag(_, b) => cbor_to_json(b),
        _ => Value::Null,
    }
}

fn json_to_cbor(v: &Value) -> serde_cbor::Value {
    use serde_cbor::Value as C;
    match v {
        Value::Null => C::Null,
        Value::Bool(b) => C::Bool(*b),
        Value::Number(n) => {
            if let Some(u) = n.as_u64() {
                C::Integer(u as i128)
            } else if let Some(i) = n.as_i64() {
                C::Integer(i as i128)
            } else {
                C::Float(n.as_f64().unwrap_or(0.0))
            }
        }
        Value::String(s) => C::Text(s.clone()),
        Value::Array(a) => C::Array(a.iter().map(json_to_cbor).collect()),
        Value::Object(o) => C::Map(o.iter().map(|(k, v)| (C::Text(k.clone()), json_to_cbor(v))).collect()),
    }
}

pub fn judge_doc<F: Flav>(bytes: &[u8], fmt: &str, origin: &str, rep: &mut Report) {
    rep.count("evaluations");
    rep.count(&format!("{}.{}", F::NAME, fmt));
    watchdog::tick(|| format!("{} {} doc {:?}", F::NAME, fmt, String::from_utf8_lossy(&bytes[..bytes.len().min(200)])));
    let reg = Registry::new();
    set_cur_reg(Some(reg.clone()));
    let res = catch(|| {
        if fmt == "json" {
            match std::str::from_utf8(bytes) {
                Ok(s) => F::de_json(s),
                Err(_) => Err("not utf-8".into()),
            }
        } else {
            F::de_cbor(bytes)
        }
    });
    set_cur_reg(None);
    let mut msgs: Vec<String> = vec![];
    match res {
        Err(p) => msgs.push(format!("deserialising panicked: {}", p)),
        Ok(Err(_)) => rep.count("documents_rejected"),
        Ok(Ok(g)) => {
            rep.count("documents_accepted");
            let lenient: Option<Value> = if fmt == "json" {
                serde_json::from_slice::<Value>(bytes).ok()
            } else {
                serde_cbor::from_slice::<serde_cbor::Value>(bytes).ok().map(|c| cbor_to_json(&c))
            };
            match catch(|| check_graph_invariants::<F>(&g)) {
                Err(p) => msgs.push(format!("accepted graph cannot be walked: {}", p)),
                Ok(m) => msgs.extend(m.into_iter().map(|x| format!("accepted graph breaks the invariant: {}", x))),
            }
            let walkable = msgs.is_empty();
            match lenient.as_ref().and_then(declared) {
                None => {
                    // accepted although it is not a [nodes, edges] array (an alternative input shape?): shape-independent
                    // oracle - every number of the result must occur somewhere in the document
                    rep.count("accepted_but_not_readable_leniently");
                    if walkable {
                        let mut nums: Vec<i64> = vec![];
                        fn collect(v: &Value, out: &mut Vec<i64>) {
                            match v {
                                Value::Number(n) => out.push(n.as_i64().unwrap_or(i64::MIN)),
                                Value::Array(a) => a.iter().for_each(|x| collect(x, out)),
                                Value::Object(o) => o.iter().for_each(|(k, x)| {
                                    if let Ok(i) = k.parse::<i64>() {
                                        out.push(i);
                                    }
                                    collect(x, out)
                                }),
                                Value::String(s) => {
                                    if let Ok(i) = s.parse::<i64>() {
                                        out.push(i);
                                    }
                                }
                                _ => {}
                            }
                        }
                        if let Some(l) = &lenient {
                            collect(l, &mut nums);
                        }
                        for (k, n) in F::g_iter(&g) {
                            if !nums.contains(&(k as i64)) || !nums.contains(&(F::val(&n).prio as i64)) {
                                msgs.push(format!("node ({}, {}) of the result occurs nowhere in the document", k, F::val(&n).prio));
                            }
                            for e in F::iter_out(&n) {
                                let ev = F::e_val(&e);
                                if !nums.contains(&(ev.id as i64)) || !nums.contains(&(ev.val as i64)) {
                                    msgs.push(format!("edge value e{}:{} of the result occurs nowhere in the document", ev.id, ev.val));
                                }
                            }
                        }
                    }
                }
                // a graph that cannot even be walked is already reported; do not walk it again
                Some(_) if !walkable => {}
                Some(d) => {
                    if d.undeclared_refs > 0 {
                        msgs.push(format!("document names {} undeclared key(s) in its edges but was accepted", d.undeclared_refs));
                    }
                    if !d.edges.is_empty() {
                        rep.count("accepted_with_edges");
                    }
                    let members = F::g_iter(&g);
                    for (k, n) in &members {
                        let p = F::val(n).prio as i64;
                        if !d.nodes.iter().any(|(dk, dp)| *dk == *k as u64 && *dp == p) {
                            msgs.push(format!("node ({}, {}) of the result is not declared in the document", k, p));
                        }
                    }
                    if members.len() > d.nodes.len() {
                        msgs.push(format!("result has {} nodes, document declares {}", members.len(), d.nodes.len()));
                    }
                    for (k, n) in &members {
                        let mut counted: Vec<(K, Eid)> = vec![];
                        for e in F::iter_out(n) {
                            let pk = F::key(F::e_dst(&e));
                            let ev = *F::e_val(&e);
                            if counted.contains(&(pk, ev)) {
                                continue;
                            }
                            counted.push((pk, ev));
                            let have = F::iter_out(n).iter().filter(|x| F::key(F::e_dst(x)) == pk && *F::e_val(x) == ev).count();
                            let (ku, pu) = (*k as u64, pk as u64);
                            let fwd = d.edges.iter().filter(|(u, w, id, val)| *u == ku && *w == pu && *id == ev.id as i64 && *val == ev.val as i64).count();
                            let allowed = if F::DIRECTED {
                                fwd
                            } else if ku == pu {
                                2 * fwd
                            } else {
                                fwd + d.edges.iter().filter(|(u, w, id, val)| *u == pu && *w == ku && *id == ev.id as i64 && *val == ev.val as i64).count()
                            };
                            if have > allowed {
                                msgs.push(format!("result has {} copies of edge ({},{},e{}), document lists {}", have, k, pk, ev.id, allowed));
                            }
                        }
                    }
                }
            }
        }
    }
    if !msgs.is_empty() {
        let cls: String = msgs[0].chars().filter(|c| !c.is_ascii_digit()).take(50).collect();
        let shown = if fmt == "json" { String::from_utf8_lossy(bytes).chars().take(300).collect::<String>() } else { format!("hex:{}", bytes.iter().take(150).map(|b| format!("{:02x}", b)).collect::<String>()) };
        rep.violation(
            "C13",
            format!("{}|{}|{}", F::NAME, fmt, cls),
            format!("[{}] {} document ({}) `{}`: {}", F::NAME, fmt, origin, shown, msgs.join("; ")),
            json!({"kind":"serde_doc","prop":"C13","flavour":F::NAME,"format":fmt,"origin":origin,
                   "hex": bytes.iter().map(|b| format!("{:02x}", b)).collect::<String>()}),
        );
    }
}

// ---------------------------------------------------------------- mutation

fn all_paths(v: &Value, cur: &mut Vec<usize>, out: &mut Vec<Vec<usize>>) {
    out.push(cur.clone());
    if let Value::Array(a) = v {
        for (i, x) in a.iter().enumerate() {
            cur.push(i);
            all_paths(x, cur, out);
            cur.pop();
        }
    }
}

fn get_mut<'a>(v: &'a mut Value, path: &[usize]) -> Option<&'a mut Value> {
    let mut c = v;
    for i in path {
        c = c.as_array_mut()?.get_mut(*i)?;
    }
    Some(c)
}

const N_KINDS: usize = 19;

/// Applies structural mutation `kind` at `path`; None if not applicable.
fn mutate(doc: &Value, path: &[usize], kind: usize) -> Option<Value> {
    let mut d = doc.clone();
    if kind >= 16 {
        // element moved / copied to the end or the front of its parent array
        let (last, parent) = path.split_last()?;
        let p = get_mut(&mut d, parent)?.as_array_mut()?;
        if p.len() < 2 {
            return None;
        }
        match kind {
            16 => {
                let x = p.remove(*last);
                p.push(x);
            }
            17 => {
                let x = p[*last].clone();
                p.push(x);
            }
            _ => {
                let x = p.remove(*last);
                p.insert(0, x);
            }
        }
        return Some(d);
    }
    if kind <= 2 {
        // operations on the parent array
        let (last, parent) = path.split_last()?;
        let p = get_mut(&mut d, parent)?.as_array_mut()?;
        match kind {
            0 => {
                p.remove(*last);
            }
            1 => {
                let x = p[*last].clone();
                p.insert(*last, x);
            }
            _ => {
                if *last + 1 >= p.len() {
                    return None;
                }
                p.swap(*last, *last + 1);
            }
        }
        return Some(d);
    }
    let t = get_mut(&mut d, path)?;
    let is_num = t.is_number();
    let new = match kind {
        3 => Value::Null,
        4 => json!("x"),
        5 => json!(-1),
        6 => json!(4294967296u64),
        7 => json!(1.5),
        8 => json!([]),
        9 => json!({}),
        10 => json!([t.clone()]),
        11 => {
            if !is_num {
                return None;
            }
            json!(99)
        }
        12 => json!(true),
        13 => {
            // extend an array (wrong arity)
            let a = t.as_array()?.clone();
            let mut a2 = a.clone();
            a2.push(json!(0));
            Value::Array(a2)
        }
        14 => {
            // shorten an array (wrong arity)
            let a = t.as_array()?.clone();
            if a.is_empty() {
                return None;
            }
            Value::Array(a[..a.len() - 1].to_vec())
        }
        _ => {
            if !is_num {
                return None;
            }
            json!(t.as_i64().unwrap_or(0) + 1)
        }
    };
    *t = new;
    Some(d)
}

fn seed_docs<F: Flav>() -> Vec<(Vec<i32>, Vec<(K, K)>)> {
    let mut v = vec![
        (vec![], vec![]),
        (vec![5], vec![]),
        (vec![1, 2], vec![(0, 1)]),
        (vec![0, 0], vec![(0, 0), (0, 1), (0, 1)]),
        (vec![3, -4, 7], vec![(0, 1), (1, 2), (2, 0), (1, 1)]),
    ];
    // every multigraph on <=2 nodes with <=2 edges
    for n in 1..=2usize {
        for ne in 1..=2usize {
            let base = n * n;
            for idx in 0..base.pow(ne as u32) {
                let mut i = idx;
                let mut e = vec![];
                for _ in 0..ne {
                    let p = i % base;
                    i /= base;
                    e.push(((p / n) as K, (p % n) as K));
                }
                v.push(((0..n).map(|x| x as i32 * 3 - 1).collect(), e));
            }
        }
    }
    v
}

fn valid_doc<F: Flav>(prios: &[i32], edges: &[(K, K)]) -> Value {
    let mut w = World::<F>::with_prios(prios);
    for (a, b) in edges {
        let e = w.fresh();
        F::connect(&w.nodes[*a as usize], &w.nodes[*b as usize], e);
    }
    let order: Vec<usize> = (0..prios.len()).collect();
    let g = crate::serde_rt::container_of::<F>(&w, &order);
    let s = F::ser_json(&g).expect("harness: valid graph does not serialise");
    serde_json::from_str(&s).expect("harness: own output is not JSON")
}

fn synthetic() -> Vec<&'static str> {
    vec![
        "", " ", "[]", "[[]]", "[[],[]]", "[[],[],[]]", "[[[0,1]]]", "[null,null]", "{}", "{\"0\":[]}", "null", "0", "\"x\"", "true",
        "[[],[[0,1,[1,1]]]]", "[[[0,1]],[[0,1,[1,1]]]]", "[[[0,1]],[[1,0,[1,1]]]]", "[[[0,1]],[[0,0,[1,1]]]]",
        "[[[0,1],[0,2]],[[0,0,[1,1]]]]", "[[[0,1],[1,1]],[[0,1]]]", "[[[0,1],[1,1]],[[0,1,[1,1],7]]]",
        "[[[0,1],[1,1]],[[0,1,[1]]]]", "[[[0,1],[1,1]],[[0,1,1]]]", "[[[0,1],[1,1]],[[0,1,[1,1]],[1,2,[2,2]]]]",
        "[[[0,1],[1,1]],[[2,1,[1,1]]]]", "[[[0]],[]]", "[[[0,1,2]],[]]", "[[0,1],[]]", "[[[\"0\",1]],[]]", "[[[-1,1]],[]]",
        "[[[4294967295,1]],[[4294967295,4294967295,[1,1]]]]", "[[[4294967296,1]],[]]", "[[[0,2147483648]],[]]", "[[[0,1.0]],[]]",
        "[[[0,1]],[]] x", "[[[0,1]],[]]]", "[[[0,1]],[]", "[[[0,1]],[],]", "[[[0,1]],{}]", "[{},[]]",
        "[[[[[[[[[[[[[[[[[[[[[[[[[[[[[[[[[[[[[[[[0]]]]]]]]]]]]]]]]]]]]]]]]]]]]]]]]]]]]]]]]]",
        "[[[0,1],[1,2],[2,3]],[[0,1,[1,0]],[1,2,[2,0]],[2,0,[3,0]],[0,1,[1,0]]]]",
        "[[[1,1],[1,1],[1,1]],[[1,1,[1,1]],[1,1,[1,1]]]]",
    ]
}

pub fn run<F: Flav>(rep: &mut Report, random_docs: u64, shard: u64, nshards: u64, rng: &mut Rng) {
    let mut idx = 0u64;
    let mut mine = |idx: &mut u64| -> bool {
        *idx += 1;
        *idx % nshards == shard
    };
    // hand-written documents
    for s in synthetic() {
        if mine(&mut idx) {
            rep.count("synthetic_documents");
            rep.distinct(fnv_str(&format!("{}|syn|{}", F::NAME, s)));
            judge_doc::<F>(s.as_bytes(), "json", "synthetic", rep);
            // the same structure as CBOR when it is JSON at all
            if let Ok(v) = serde_json::from_str::<Value>(s) {
                if let Ok(b) = serde_cbor::to_vec(&json_to_cbor(&v)) {
                    judge_doc::<F>(&b, "cbor", "synthetic", rep);
                }
            }
        }
    }
    let mut all_valid: Vec<Value> = vec![];
    // seeds: what the serialiser writes, and the same graphs written directly (edges in connect order and
    // orientation, which the serialiser of the undirected flavours never produces)
    let mut seeds: Vec<Value> = vec![];
    for (prios, edges) in seed_docs::<F>() {
        seeds.push(valid_doc::<F>(&prios, &edges));
        let direct = json!([
            prios.iter().enumerate().map(|(k, p)| json!([k, p])).collect::<Vec<_>>(),
            edges.iter().enumerate().map(|(i, (a, b))| json!([a, b, [i + 1, (i as i32 * 7) % 5]])).collect::<Vec<_>>()
        ]);
        if !seeds.contains(&direct) {
            seeds.push(direct);
        }
    }
    for doc in seeds {
        all_valid.push(doc.clone());
        let text = serde_json::to_string(&doc).unwrap();
        let cb = serde_cbor::to_vec(&json_to_cbor(&doc)).unwrap();
        // the unmutated documents must be accepted (sanity of the generator)
        if shard == 0 {
            let before = rep.get("documents_accepted");
            judge_doc::<F>(text.as_bytes(), "json", "valid seed", rep);
            judge_doc::<F>(&cb, "cbor", "valid seed", rep);
            if rep.get("documents_accepted") != before + 2 {
                rep.inconclusive.push(format!("valid seed document rejected: {}", text));
            }
        }
        // structural mutations at every position
        let mut paths = vec![];
        all_paths(&doc, &mut vec![], &mut paths);
        for p in &paths {
            for kind in 0..N_KINDS {
                if let Some(m) = mutate(&doc, p, kind) {
                    if !mine(&mut idx) {
                        continue;
                    }
                    rep.count("structural_mutations");
                    let t = serde_json::to_string(&m).unwrap();
                    if rep.distinct(fnv_str(&format!("{}|{}", F::NAME, t))) && rep.samples.len() < 3 && kind == 11 {
                        rep.sample(json!({"flavour":F::NAME,"mutated_document":t,"mutation":"retarget a key to 99","seed_document":text}));
                    }
                    judge_doc::<F>(t.as_bytes(), "json", &format!("mutation {} at {:?}", kind, p), rep);
                    if let Ok(b) = serde_cbor::to_vec(&json_to_cbor(&m)) {
                        judge_doc::<F>(&b, "cbor", &format!("mutation {} at {:?}", kind, p), rep);
                    }
                    // double mutations for the small seeds
                    if paths.len() <= 14 {
                        let mut p2s = vec![];
                        all_paths(&m, &mut vec![], &mut p2s);
                        for p2 in p2s.iter().step_by(2) {
                            let k2 = (kind * 7 + p2.len() * 5 + p2.last().copied().unwrap_or(0)) % N_KINDS;
                            if let Some(m2) = mutate(&m, p2, k2) {
                                rep.count("double_mutations");
                                let t2 = serde_json::to_string(&m2).unwrap();
                                rep.distinct(fnv_str(&format!("{}|{}", F::NAME, t2)));
                                judge_doc::<F>(t2.as_bytes(), "json", "double mutation", rep);
                            }
                        }
                    }
                }
            }
        }
        // truncation at every byte
        for cut in 0..text.len() {
            if mine(&mut idx) {
                rep.count("truncations");
                rep.distinct(fnv_str(&format!("{}|tj|{}|{}", F::NAME, text, cut)));
                judge_doc::<F>(&text.as_bytes()[..cut], "json", "truncation", rep);
            }
        }
        for cut in 0..cb.len() {
            if mine(&mut idx) {
                rep.count("truncations");
                rep.distinct(fnv_str(&format!("{}|tc|{}|{}", F::NAME, text, cut)));
                judge_doc::<F>(&cb[..cut], "cbor", "truncation", rep);
            }
        }
        // the same content in a map form (field order both ways, nodes missing, integer keys): rejected today;
        // an implementation that accepts such shapes is judged on content like any other
        {
            let (ns, es) = (doc.get(0).cloned().unwrap_or(json!([])), doc.get(1).cloned().unwrap_or(json!([])));
            let mut es_bad = es.clone();
            if let Some(e) = es_bad.as_array_mut().and_then(|a| a.last_mut()).and_then(|e| e.as_array_mut()) {
                if e.len() >= 2 {
                    e[1] = json!(77);
                }
            }
            let forms = vec![
                json!({"nodes": ns, "edges": es}),
                json!({"edges": es, "nodes": ns}),
                json!({"edges": es}),
                json!({"edges": es_bad, "nodes": ns}),
                json!({"nodes": ns, "edges": es_bad}),
                json!({"0": ns, "1": es_bad}),
                json!([ns, es, es]),
                json!([ns, es, es_bad]),
                json!([ns, [], es]),
            ];
            for f in forms {
                if !mine(&mut idx) {
                    continue;
                }
                rep.count("alternative_shape_documents");
                let t = serde_json::to_string(&f).unwrap();
                rep.distinct(fnv_str(&format!("{}|alt|{}", F::NAME, t)));
                judge_doc::<F>(t.as_bytes(), "json", "alternative shape (map / extra lists)", rep);
                if let Ok(b) = serde_cbor::to_vec(&json_to_cbor(&f)) {
                    judge_doc::<F>(&b, "cbor", "alternative shape (map / extra lists)", rep);
                }
                // CBOR map with integer keys 0 / 1
                if let Some(o) = f.as_object() {
                    let m: std::collections::BTreeMap<serde_cbor::Value, serde_cbor::Value> = o
                        .iter()
                        .map(|(k, v)| (if k == "nodes" || k == "0" { serde_cbor::Value::Integer(0) } else { serde_cbor::Value::Integer(1) }, json_to_cbor(v)))
                        .collect();
                    if let Ok(b) = serde_cbor::to_vec(&serde_cbor::Value::Map(m)) {
                        judge_doc::<F>(&b, "cbor", "alternative shape (integer-keyed map)", rep);
                    }
                }
            }
        }
        // the same document in other CBOR encodings: indefinite-length arrays, tagged elements; with and
        // without an edge retargeted to an undeclared key
        for variant in 0..4u8 {
            if !mine(&mut idx) {
                continue;
            }
            let mut d2 = doc.clone();
            if variant >= 2 {
                if let Some(e) = d2.get_mut(1).and_then(|x| x.as_array_mut()).and_then(|a| a.last_mut()).and_then(|e| e.as_array_mut()) {
                    if e.len() >= 2 {
                        e[1] = json!(77);
                    }
                }
            }
            fn enc(v: &Value, indefinite: bool, tag: bool, out: &mut Vec<u8>) {
                match v {
                    Value::Array(a) => {
                        if tag {
                            out.push(0xc6 + (a.len() as u8 % 10));
                        }
                        if indefinite {
                            out.push(0x9f);
                            for x in a {
                                enc(x, indefinite, tag, out);
                            }
                            out.push(0xff);
                        } else {
                            out.extend(serde_cbor::to_vec(&serde_cbor::Value::Array(vec![])).unwrap()[..0].iter());
                            let mut hdr = serde_cbor::to_vec(&serde_cbor::Value::Array(a.iter().map(|_| serde_cbor::Value::Null).collect())).unwrap();
                            hdr.truncate(hdr.len() - a.len());
                            out.extend(hdr);
                            for x in a {
                                enc(x, indefinite, tag, out);
                            }
                        }
                    }
                    other => out.extend(serde_cbor::to_vec(&json_to_cbor(other)).unwrap()),
                }
            }
            let mut bytes = vec![];
            enc(&d2, variant % 2 == 0, variant % 2 == 1, &mut bytes);
            rep.count("cbor_reencodings");
            rep.distinct(fnv(&bytes) ^ fnv_str(F::NAME));
            judge_doc::<F>(&bytes, "cbor", "re-encoded (indefinite-length / tagged)", rep);
        }
        // CBOR length-header inflation: every small array / map / string header claims a huge count
        for pos in 0..cb.len() {
            let b = cb[pos];
            let major = b >> 5;
            if !(2..=5).contains(&major) || (b & 0x1f) > 0x18 {
                continue;
            }
            for (ai, extra) in [(0x1bu8, vec![0xffu8; 8]), (0x1b, vec![0, 0, 0, 1, 0, 0, 0, 0]), (0x1a, vec![0xff; 4]), (0x19, vec![0xff, 0xff]), (0x1a, vec![0, 0x10, 0, 0])] {
                if !mine(&mut idx) {
                    continue;
                }
                let mut m: Vec<u8> = cb[..pos].to_vec();
                m.push((major << 5) | ai);
                m.extend(extra);
                let skip = if (b & 0x1f) == 0x18 { 2 } else { 1 };
                m.extend_from_slice(&cb[pos + skip.min(cb.len() - pos)..]);
                rep.count("cbor_length_inflations");
                rep.distinct(fnv(&m) ^ fnv_str(F::NAME));
                judge_doc::<F>(&m, "cbor", "length header inflated", rep);
            }
        }
    }
    rep.count("enumerations_completed");
    // seeded random byte / token mutations
    let tokens: [&[u8]; 12] = [b"[", b"]", b",", b"0", b"1", b"-", b"99", b"null", b"\"", b"{", b"}", b"1e9"];
    for _ in 0..random_docs {
        let base = rng.pick(&all_valid).clone();
        let as_cbor = rng.chance(1, 2);
        let mut bytes: Vec<u8> = if as_cbor { serde_cbor::to_vec(&json_to_cbor(&base)).unwrap() } else { serde_json::to_vec(&base).unwrap() };
        let nm = 1 + rng.below(3);
        for _ in 0..nm {
            if bytes.is_empty() {
                break;
            }
            let pos = rng.below(bytes.len());
            match rng.below(5) {
                0 => {
                    bytes[pos] = rng.below(256) as u8;
                }
                1 => {
                    bytes.remove(pos);
                }
                2 => {
                    let t = *rng.pick(&tokens);
                    for (i, b) in t.iter().enumerate() {
                        bytes.insert(pos + i, *b);
                    }
                }
                3 => {
                    bytes[pos] ^= 1 << rng.below(8);
                }
                _ => {
                    let l = rng.below(bytes.len() - pos) + 1;
                    let chunk: Vec<u8> = bytes[pos..pos + l].to_vec();
                    for (i, b) in chunk.iter().enumerate() {
                        bytes.insert(pos + i, *b);
                    }
                }
            }
        }
        rep.count("random_mutations");
        rep.distinct(fnv(&bytes) ^ fnv_str(F::NAME));
        judge_doc::<F>(&bytes, if as_cbor { "cbor" } else { "json" }, "random byte/token mutation", rep);
    }
}

pub fn replay<F: Flav>(v: &Value) -> bool {
    let hex = v["hex"].as_str().unwrap_or("");
    let bytes: Vec<u8> = (0..hex.len() / 2).filter_map(|i| u8::from_str_radix(&hex[2 * i..2 * i + 2], 16).ok()).collect();
    let fmt = v["format"].as_str().unwrap_or("json");
    let mut rep = Report::new();
    judge_doc::<F>(&bytes, fmt, "replay", &mut rep);
    for x in rep.violations.iter().take(3) {
        println!("DISCREPANCY: {}", x.what);
    }
    rep.total_violations() > 0
}
