//! Structure dumps used by the generated macro programs (C14).  One dump per
//! flavour because the four Graph types share no trait.
use std::fmt::{Debug, Display};
use std::hash::Hash;

macro_rules! dump_directed {
    ($name:ident, $m:ident) => {
        pub fn $name<K, N, E>(g: &gdsl::$m::Graph<K, N, E>) -> String
        where
            K: Clone + Hash + Display + Eq + Debug,
            N: Clone + Debug,
            E: Clone + Debug,
        {
            let mut rows: Vec<String> = vec![];
            for (k, n) in g.iter() {
                let out: Vec<String> = n.iter_out().map(|gdsl::$m::Edge(_, v, e)| format!("{:?}:{:?}", v.key(), e)).collect();
                let inn: Vec<String> = n.iter_in().map(|gdsl::$m::Edge(u, _, e)| format!("{:?}:{:?}", u.key(), e)).collect();
                rows.push(format!("{:?}={:?} out[{}] in[{}]", k, n.value(), out.join(","), inn.join(",")));
            }
            rows.sort();
            format!("len={} | {}", g.len(), rows.join(" | "))
        }
    };
}
macro_rules! dump_undirected {
    ($name:ident, $m:ident) => {
        pub fn $name<K, N, E>(g: &gdsl::$m::Graph<K, N, E>) -> String
        where
            K: Clone + Hash + Display + Eq + Debug,
            N: Clone + Debug,
            E: Clone + Debug,
        {
            let mut rows: Vec<String> = vec![];
            for (k, n) in g.iter() {
                let adj: Vec<String> = n.iter().map(|gdsl::$m::Edge(_, v, e)| format!("{:?}:{:?}", v.key(), e)).collect();
                rows.push(format!("{:?}={:?} adj[{}]", k, n.value(), adj.join(",")));
            }
            rows.sort();
            format!("len={} | {}", g.len(), rows.join(" | "))
        }
    };
}
dump_directed!(dump_digraph, digraph);
dump_directed!(dump_sync_digraph, sync_digraph);
dump_undirected!(dump_ungraph, ungraph);
dump_undirected!(dump_sync_ungraph, sync_ungraph);

pub trait Dump {
    fn dump(&self) -> String;
    fn type_name(&self) -> &'static str {
        std::any::type_name::<Self>()
    }
}
macro_rules! impl_dump {
    ($m:ident, $f:ident) => {
        impl<K, N, E> Dump for gdsl::$m::Graph<K, N, E>
        where
            K: Clone + Hash + Display + Eq + Debug,
            N: Clone + Debug,
            E: Clone + Debug,
        {
            fn dump(&self) -> String {
                $f(self)
            }
        }
    };
}
impl_dump!(digraph, dump_digraph);
impl_dump!(sync_digraph, dump_sync_digraph);
impl_dump!(ungraph, dump_ungraph);
impl_dump!(sync_ungraph, dump_sync_ungraph);

pub fn quiet_panics() {
    std::panic::set_hook(Box::new(|_| {}));
}

pub fn panic_text(e: Box<dyn std::any::Any + Send>) -> String {
    if let Some(s) = e.downcast_ref::<&str>() {
        s.to_string()
    } else if let Some(s) = e.downcast_ref::<String>() {
        s.clone()
    } else {
        "<non-string panic>".into()
    }
}

thread_local! {
    static TICKS: std::cell::Cell<i64> = std::cell::Cell::new(0);
}
/// A value expression with a side effect: successive calls return 1, 2, 3, ...
/// A macro that evaluates a listed expression twice, or not at all, shows.
pub fn tick() -> i64 {
    TICKS.with(|t| {
        t.set(t.get() + 1);
        t.get()
    })
}
pub fn reset_ticks() {
    TICKS.with(|t| t.set(0));
}
